#!/bin/bash
# usage: tools_mut.sh <file-in-repo> <sed-expr> <PID> [check args...]   (development aid: apply, check, revert)
f="$1"; e="$2"; pid="$3"; shift 3
cd /repo && sed -i "$e" "$f" && git diff --stat | tail -1
cd /verif && ./check "$pid" "$@" 2>&1 | grep -E "VIOLATION|KNOWN|^\[|HARNESS|inconclusive" | head -8
cd /repo && git checkout -- . 
