#!/usr/bin/env python3
"""print a python source file with docstrings removed (reading aid)"""
import sys, ast
src = open(sys.argv[1]).read()
lo = int(sys.argv[2]) if len(sys.argv) > 2 else 1
hi = int(sys.argv[3]) if len(sys.argv) > 3 else 10**9
tree = ast.parse(src)
skip = set()
for node in ast.walk(tree):
    if isinstance(node, (ast.FunctionDef, ast.ClassDef, ast.Module, ast.AsyncFunctionDef)):
        b = node.body
        if b and isinstance(b[0], ast.Expr) and isinstance(b[0].value, ast.Constant) and isinstance(b[0].value.value, str):
            for l in range(b[0].lineno, b[0].end_lineno + 1):
                skip.add(l)
for i, line in enumerate(src.splitlines(), 1):
    if i in skip or not line.strip() or i < lo or i > hi:
        continue
    print(f"{i}\t{line}")
