#!/bin/bash
# run_seeds.sh [tier] [ids...]: apply each seeded change to /repo (git -C /repo apply), run that property's check, undo
# (git -C /repo checkout -- .); one line per seed; the outcome is recorded in seeded/<id>/meta.json (confirmed.now).
# Evidence of these runs goes to a scratch directory: committed evidence comes from the unchanged tree only.
tier="${1:-quick}"; shift
cd "$(dirname "$0")/.."
ids="$@"; [ -z "$ids" ] && ids=$(ls seeded)
ev=$(mktemp -d /tmp/seedrun_ev.XXXX)
for s in $ids; do
  pid=$(python3 -c "import json;print(json.load(open('seeded/$s/meta.json'))['property'])")
  [ -n "$(git -C /repo status --porcelain --untracked-files=no)" ] && { echo "/repo is not clean"; exit 2; }
  git -C /repo apply /verif/seeded/$s/patch.diff || { echo "$s: patch does not apply"; continue; }
  t0=$(date +%s)
  out=$(VF_EVIDENCE_DIR=$ev ./check $pid --tier $tier 2>&1); rc=$?
  t1=$(date +%s)
  git -C /repo checkout -- .
  nv=$(echo "$out" | grep -c "^VIOLATION")
  echo "$s property=$pid rc=$rc violations=$nv $((t1-t0))s $(echo "$out" | grep "^\[$pid\]" | cut -c1-150)"
  echo "$out" | grep -A1 "^VIOLATION" | grep obligation | head -1 | cut -c1-260
  python3 - "$s" "$rc" "$nv" "$tier" <<'PY'
import json, sys
s, rc, nv, tier = sys.argv[1:5]
p = f"seeded/{s}/meta.json"
m = json.load(open(p))
c = m.setdefault("confirmed", {})
c["now"] = (f"caught ({nv} violations)" if rc == "1" and int(nv) > 0 else f"NOT caught (exit {rc})") + f" [{tier}]"
c["now_run"] = f"git -C /repo apply seeded/{s}/patch.diff; ./check {m['property']} --tier {tier}; git -C /repo checkout -- ."
json.dump(m, open(p, "w"), indent=1)
PY
done
rm -rf $ev
