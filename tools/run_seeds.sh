#!/bin/bash
# run_seeds.sh [tier] [ids...]: apply each seeded change to /repo, run that property's check, undo; one line per seed
tier="${1:-quick}"; shift
cd "$(dirname "$0")/.."
ids="$@"; [ -z "$ids" ] && ids=$(ls seeded)
for s in $ids; do
  pid=$(python3 -c "import json;print(json.load(open('seeded/$s/meta.json'))['property'])")
  git -C /repo apply /verif/seeded/$s/patch.diff || { echo "$s: patch does not apply"; continue; }
  t0=$(date +%s)
  out=$(./check $pid --tier $tier 2>&1); rc=$?
  t1=$(date +%s)
  git -C /repo checkout -- .
  nv=$(echo "$out" | grep -c "^VIOLATION")
  echo "$s property=$pid rc=$rc violations=$nv $((t1-t0))s $(echo "$out" | grep "^\[$pid\]" | cut -c1-150)"
  echo "$out" | grep -A1 "^VIOLATION" | grep obligation | head -1 | cut -c1-260
done
