#!/usr/bin/env python3
"""Print the markdown table of seeded changes of one round (from seeded/*/meta.json) for DESIGN.md section 8.6."""
import glob, json, os, sys
rnd = int(sys.argv[1]) if len(sys.argv) > 1 else 2
rows = []
for d in sorted(glob.glob(os.path.join(os.path.dirname(__file__), "..", "seeded", "*"))):
    m = json.load(open(os.path.join(d, "meta.json")))
    if m.get("round", 1) != rnd:
        continue
    c = m.get("confirmed", {})
    needs = m["needs"].replace("|", "/").replace("\n", " ")
    rows.append((os.path.basename(d), ", ".join(os.path.basename(f) for f in m["files"]), needs[:150] + ("…" if len(needs) > 150 else ""),
                 c.get("first_run", "?").replace("|", "/"), c.get("now", c.get("check_result", "?"))))
print("| seed | file | needs to manifest | first run | now |\n|---|---|---|---|---|")
for r in rows:
    print("| " + " | ".join(r) + " |")
