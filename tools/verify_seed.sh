#!/bin/bash
# verify_seed.sh <ID> <seed_out dir>: confirm in a fresh scratch worktree that the change keeps the 111 tests green, that the demo
# fails with it and passes without it; then store it under /verif/seeded/<ID>/
id="$1"; src="$2"; name="${3:-$id}"
wt=/tmp/seedverify_$name
git -C /repo worktree remove --force $wt 2>/dev/null
git -C /repo worktree add -q --detach $wt HEAD || exit 2
cd $wt
PYTHONPATH=$wt/src timeout 60 /venv/bin/python $src/demo.py > /tmp/sv_$name.orig 2>&1; rc_orig=$?
git apply $src/patch.diff || { echo "patch does not apply"; exit 2; }
tests=$(PYTHONPATH=$wt/src timeout 300 /venv/bin/python -m pytest -q -p no:cacheprovider 2>&1 | tail -1)
PYTHONPATH=$wt/src timeout 60 /venv/bin/python $src/demo.py > /tmp/sv_$name.mut 2>&1; rc_mut=$?
echo "$name: demo original rc=$rc_orig, with change rc=$rc_mut, tests: $tests"
cd /; git -C /repo worktree remove --force $wt
if [ "$rc_orig" = "0" ] && [ "$rc_mut" = "1" ] && echo "$tests" | grep -q "111 passed"; then
  mkdir -p /verif/seeded/$name && cp $src/patch.diff $src/demo.py $src/meta.json /verif/seeded/$name/ && echo "stored /verif/seeded/$name"
else
  echo "NOT confirmed"; tail -3 /tmp/sv_$name.orig /tmp/sv_$name.mut
fi
