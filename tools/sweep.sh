#!/bin/bash
# run every check of a tier sequentially; one summary line each
tier="${1:-quick}"
cd "$(dirname "$0")/.."
for p in C01 C02 C03 C04 C05 C06 C07 C08 C09 C10 C11 C12 C13 C14 C15 C16 C17 C18 C19 C20; do
  s=$(date +%s)
  out=$(./check $p --tier $tier 2>&1); rc=$?
  e=$(date +%s)
  echo "$p rc=$rc $((e-s))s $(echo "$out" | grep "^\[$p\]" | cut -c1-170)"
  echo "$out" | grep -E "^VIOLATION|HARNESS-ERROR|inconclusive:" | head -3 | cut -c1-220
done
