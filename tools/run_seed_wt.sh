#!/bin/bash
# run_seed_wt.sh <seed dir (patch.diff, meta.json)> [tier]: run the property's check against a scratch worktree of /repo with the
# change applied (PYTHONPATH puts the worktree's src first), evidence goes to a scratch directory. Used while /repo itself is busy.
sd="$1"; tier="${2:-quick}"; shift; shift   # further arguments are passed to ./check (e.g. --only SUBSTR)
pid=$(python3 -c "import json;print(json.load(open('$sd/meta.json'))['property'])")
name=$(basename $(dirname $sd))_$(basename $sd)
wt=/tmp/seedrun_$$
git -C /repo worktree add -q --detach $wt HEAD || exit 2
git -C $wt apply $sd/patch.diff || { echo "$name: patch does not apply"; git -C /repo worktree remove --force $wt; exit 2; }
cd /verif
t0=$(date +%s)
out=$(PYTHONPATH=$wt/src VF_EVIDENCE_DIR=/tmp/seedrun_ev_$$ ./check $pid --tier $tier "$@" 2>&1); rc=$?
t1=$(date +%s)
git -C /repo worktree remove --force $wt; rm -rf /tmp/seedrun_ev_$$
echo "$sd property=$pid rc=$rc violations=$(echo "$out" | grep -c '^VIOLATION') $((t1-t0))s $(echo "$out" | grep "^\[$pid\]" | cut -c1-140)"
echo "$out" | grep -A1 "^VIOLATION" | grep obligation | head -1 | cut -c1-260
echo "$out" | grep -E "HARNESS-ERROR" | head -2 | cut -c1-260
