#!/usr/bin/env python3
"""Regenerates /verif/MANIFEST.json from the table below (kept valid at all times)."""
import json, os, sys
ROOT = os.path.dirname(os.path.dirname(os.path.abspath(__file__)))
sys.path.insert(0, ROOT)
from tools.manifest_table import CHECKS, NOT_APPLICABLE, NOTES

props = [json.loads(l) for l in open(os.path.join(ROOT, "properties.jsonl"))]
ids = [p["id"] for p in props]
checks = []
for pid in ids:
    if pid in CHECKS:
        c = CHECKS[pid]
        checks.append({
            "property_id": pid,
            "quick_cmd": f"./check {pid} --tier quick",
            "thorough_cmd": f"./check {pid} --tier thorough",
            "evidence_file": f"/verif/evidence/{pid}.json",
            "replay_cmd_template": f"./check {pid} --replay {{path}}",
            "engine": c["engine"],
            "level_claimed": {"category": "other", "text": c["text"], "design_ref": c["design_ref"]},
            "level_note": c["note"],
            "technique": c["technique"],
        })
na = [{"property_id": pid, "reason": NOT_APPLICABLE.get(pid, "check not built yet in this session (see DESIGN.md section 7)")}
      for pid in ids if pid not in CHECKS]
man = {
    "version": 1,
    "setup_cmd": "./check --setup",
    "hooks": {"guard": "PEPTACULAR_VERIF", "enable": "no source hooks: every stub is a monkey-patch applied inside the checking process; "
              "./check exports PEPTACULAR_VERIF=1 for uniformity", "baseline_off_cmd":
              "cd /repo && /venv/bin/python -m pytest -ra -q -p no:cacheprovider --timeout=900 --continue-on-collection-errors",
              "source_commits": [], "add_only": True},
    "engines": [
        {"name": "E1 crosshair", "path": "vf/ch.py", "serves_properties": [p for p in ids if p in CHECKS and "E1" in CHECKS[p]["engine"]],
         "kind_free_text": "CrossHair 0.0.110 symbolic execution of the real Python functions, z3 per path"},
        {"name": "E2 symreal", "path": "vf/symreal.py", "serves_properties": [p for p in ids if p in CHECKS and "E2" in CHECKS[p]["engine"]],
         "kind_free_text": "native execution of the real code on float-subclass proxies carrying z3 Real terms; DFS over branch decisions; one z3 query per path"},
        {"name": "E0 smt", "path": "vf/smt.py", "serves_properties": [p for p in ids if p in CHECKS and "E0" in CHECKS[p]["engine"]],
         "kind_free_text": "ground/linear real-arithmetic queries generated from the imported modules' constants"},
    ],
    "checks": checks,
    "not_applicable": na,
    "notes": NOTES,
}
with open(os.path.join(ROOT, "MANIFEST.json"), "w") as fh:
    json.dump(man, fh, indent=1)
import jsonschema
jsonschema.validate(man, json.load(open("/root/.vp/MANIFEST.schema.json")))
print("MANIFEST.json written:", len(checks), "checks,", len(na), "not applicable")
