NOTES = ("Solver-based checking of the real code: CrossHair (E1) and an own float-proxy symbolic executor over z3 Reals (E2) run "
         "peptacular's functions from /repo's working tree on symbolic inputs; shapes are enumerated, values are solver variables. "
         "Every check prints KNOWN-FINDING lines for defects listed in known_findings.json and exits 1 only for unlisted, replayed "
         "counterexamples. Exit 3 = harness error.")

CHECKS = {
 "C06": dict(engine="E1 crosshair", design_ref="DESIGN.md §3 C06",
   technique="bounded symbolic execution (CrossHair/z3) of the span builders and digest(), site layout enumerated, arithmetic parameters unbounded symbolic ints",
   text="For every cleavage-site layout of a protein of length <=4 (quick) / <=6 (thorough) CrossHair executes build_spans, the single-span builders, digest, digest_from_config and sequential_digest with missed_cleavages, min_len, max_len as unbounded symbolic integers and the flags symbolic; 'Confirmed over all paths' means z3 found no value of those parameters for which the returned list differs from the set the property defines. Right level: the defects the property worries about are off-by-one interactions between the three integer parameters, which are exactly what the solver quantifies over.",
   note="Trusted: CrossHair's model of int/list/range/sorted/groupby; stub S3 (regex site finder replaced by an arbitrary fixed site set per rule). Outside: the regex C extension, n beyond the bound, non-span return types (C07)."),
 "C02": dict(engine="E2 symreal + E0 smt", design_ref="DESIGN.md §3 C02",
   technique="symbolic execution of mass()/mz() on z3-Real-carrying floats (own engine), one SMT query per path; ground QF_LRA obligations for the tables",
   text="mass() and mz() run natively on symbolic residue masses, water, proton, neutron, electron, element masses, Unimod/monosaccharide entry masses, modification values and loss; for each of ~2600 (quick) annotation shapes z3 is asked for values where the result differs from the sum of parts by more than the property's tolerance. unsat = holds for all real values within the stated magnitude bounds. The constant tables themselves are compared with an independent NIST/CODATA table as ground SMT obligations.",
   note="Assumes S4 (tables rebound to symbols), S5 (floats read as reals; tolerance 1e-5/2e-3 absorbs rounding), S6 (round = uninterpreted function), S7 (token round trip). Outside: every-Unimod-entry sweep, sequences beyond the enumerated ones."),

 "C17": dict(engine="E1 crosshair + E2 symreal", design_ref="DESIGN.md §3 C17",
   technique="CrossHair/z3 on the integer instantiation (unbounded values, exact ties) + own real-valued symbolic executor (z3 nonlinear reals for ppm), brute-force matcher as oracle",
   text="get_matched_indices, match_spectra (all/closest/largest), get_fragment_matches, get_match_coverage and get_matched_intensity_percentage are executed symbolically: with unbounded symbolic integers (list lengths <=3x3 quick, <=4x4 thorough) under CrossHair, and with real-valued m/z, intensities and absolute or ppm tolerance under E2; every path's result is compared with the quadratic brute-force window. Ties at the inclusive tolerance edge and window overlaps are exactly the rare inputs a solver finds and sampling does not.",
   note="Assumes sorted input for match_spectra (documented), tolerance >=0, m/z >0 for ppm; floats read as reals in E2 (S5) so inclusive-edge ties are claimed for the integer instantiation. Outside: binomial_score (math.comb/**), lists longer than the bound."),
}

NOT_APPLICABLE = {}
