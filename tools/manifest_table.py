NOTES = ("Solver-based checking of the real code: CrossHair (E1) and an own float-proxy symbolic executor over z3 Reals (E2) run "
         "peptacular's functions from /repo's working tree on symbolic inputs; shapes are enumerated, values are solver variables. "
         "Every check prints KNOWN-FINDING lines for defects listed in known_findings.json and exits 1 only for unlisted, replayed "
         "counterexamples. Exit 3 = harness error.")

CHECKS = {
 "C06": dict(engine="E1 crosshair", design_ref="DESIGN.md §3 C06",
   technique="bounded symbolic execution (CrossHair/z3) of the span builders and digest(), site layout enumerated, arithmetic parameters unbounded symbolic ints",
   text="For every cleavage-site layout of a protein of length <=4 (quick) / <=6 (thorough) CrossHair executes build_spans, the single-span builders, digest, digest_from_config and sequential_digest with missed_cleavages, min_len, max_len as unbounded symbolic integers and the flags symbolic; 'Confirmed over all paths' means z3 found no value of those parameters for which the returned list differs from the set the property defines. Right level: the defects the property worries about are off-by-one interactions between the three integer parameters, which are exactly what the solver quantifies over.",
   note="Trusted: CrossHair's model of int/list/range/sorted/groupby; stub S3 (regex site finder replaced by an arbitrary fixed site set per rule). Outside: the regex C extension, n beyond the bound, non-span return types (C07)."),
 "C02": dict(engine="E2 symreal + E0 smt", design_ref="DESIGN.md §3 C02",
   technique="symbolic execution of mass()/mz() on z3-Real-carrying floats (own engine), one SMT query per path; ground QF_LRA obligations for the tables",
   text="mass() and mz() run natively on symbolic residue masses, water, proton, neutron, electron, element masses, Unimod/monosaccharide entry masses, modification values and loss; for each of ~2600 (quick) annotation shapes z3 is asked for values where the result differs from the sum of parts by more than the property's tolerance. unsat = holds for all real values within the stated magnitude bounds. The constant tables themselves are compared with an independent NIST/CODATA table as ground SMT obligations.",
   note="Assumes S4 (tables rebound to symbols), S5 (floats read as reals; tolerance 1e-5/2e-3 absorbs rounding), S6 (round = uninterpreted function), S7 (token round trip). Outside: every-Unimod-entry sweep, sequences beyond the enumerated ones."),

 "C17": dict(engine="E1 crosshair + E2 symreal", design_ref="DESIGN.md §3 C17",
   technique="CrossHair/z3 on the integer instantiation (unbounded values, exact ties) + own real-valued symbolic executor (z3 nonlinear reals for ppm), brute-force matcher as oracle",
   text="get_matched_indices, match_spectra (all/closest/largest), get_fragment_matches, get_match_coverage and get_matched_intensity_percentage are executed symbolically: with unbounded symbolic integers (list lengths <=3x3 quick, <=4x4 thorough) under CrossHair, and with real-valued m/z, intensities and absolute or ppm tolerance under E2; every path's result is compared with the quadratic brute-force window. Ties at the inclusive tolerance edge and window overlaps are exactly the rare inputs a solver finds and sampling does not.",
   note="Assumes sorted input for match_spectra (documented), tolerance >=0, m/z >0 for ppm; floats read as reals in E2 (S5) so inclusive-edge ties are claimed for the integer instantiation. Outside: binomial_score (math.comb/**), lists longer than the bound."),
 "C04": dict(engine="E2 symreal", design_ref="DESIGN.md §3 C04",
   technique="symbolic execution of fragment()/Fragmenter/mass() on z3-Real-carrying floats; per shape one SMT query over all residue, offset-table and modification values",
   text="fragment() runs natively with residue masses, the per-ion-type neutral and ion adjustment tables, proton, neutron and modification values as solver variables; for ~1400 (quick) combinations of peptide shape, ion-type set, charge list, isotope list and loss rules the ion list must be exactly the expected index set, each ion's mass/neutral mass/mz must equal mass() of the ion's own serialized sequence and an independent sum of parts for all values of the variables, and the other five return types and the cached Fragmenter must be projections of the same list.",
   note="Assumes S4, S5, S7; loss values and regexes are concrete (hashed into a set by the library); the 'n' ion type's zero adjustment is kept real. Known finding C04-F2 (static N-Term/C-Term rules counted per residue) is reported, its arithmetic assumed in the re-run. Outside: precision!=None, peptides longer than 6, isotope labels."),
 "C05": dict(engine="E2 symreal", design_ref="DESIGN.md §3 C05",
   technique="symbolic execution of fragment()/mass() with symbolic residue and modification masses; relations of the property text asserted against offsets computed from an independent NIST table; z3 per shape",
   text="With residue masses and modification values symbolic and the library's offset tables real, z3 is asked for masses violating any relation of the property text (b_i+y_(n-i)=M+2p; a,c relative to b; x,z relative to y; immonium; the nine internal types; (k-1) protons per extra charge; consecutive b/y differences = the residue with its own modifications; the remainder of b_1/y_1 independent of every symbol) at 1e-5 Da, with CO, NH3, H2, H2O and the proton taken from vf/oracles.py, never from /repo. A wrong entry in the composition tables is thus a counterexample for every peptide of the shape.",
   note="Assumes S4 (only residue masses symbolic), S5. Known findings C05-F1 (ax/az/bx/bz +1 H) and C05-F2 (average-mode charge carrier) are reported and their arithmetic assumed in the re-run. Outside: peptides longer than 7."),
}

NOT_APPLICABLE = {}
