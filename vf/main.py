"""CLI: ./check <ID> --tier quick|thorough | --replay FILE"""
from __future__ import annotations

import argparse
import importlib
import json
import os
import sys
import time
import traceback

from . import common


def main() -> int:
    ap = argparse.ArgumentParser()
    ap.add_argument("pid")
    ap.add_argument("--tier", default=os.environ.get("VERIF_TIER", "quick"), choices=["quick", "thorough"])
    ap.add_argument("--replay")
    ap.add_argument("--only", default=None, help="substring filter on obligation ids (development aid)")
    args = ap.parse_args()
    pid = args.pid.upper()
    seed = int(os.environ.get("VERIF_SEED", "0") or 0)
    mod = importlib.import_module(f"vf.props.{pid.lower()}")
    if args.replay:
        with open(args.replay) as fh:
            rec = json.load(fh)
        return mod.replay(rec)
    os.environ["VERIF_TIER"] = args.tier
    t0 = time.time()
    try:
        report = mod.run(args.tier, seed, only=args.only)
        rc = common.finish(report, t0)
    except Exception:
        traceback.print_exc()
        print(f"HARNESS-ERROR: {pid} check crashed", file=sys.stderr)
        rc = 3
    finally:
        common.cleanup_workdir(pid)
    return rc


if __name__ == "__main__":
    sys.exit(main())
