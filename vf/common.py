"""Shared plumbing: obligations, reports, evidence files, known findings, worker pool."""
from __future__ import annotations

import json
import os
import shutil
import sys
import time
from concurrent.futures import ThreadPoolExecutor, ProcessPoolExecutor, as_completed
from dataclasses import dataclass, field, asdict
from typing import Any, Callable, Dict, List, Optional

ROOT = os.path.dirname(os.path.dirname(os.path.abspath(__file__)))
EVIDENCE_DIR = os.environ.get("VF_EVIDENCE_DIR") or os.path.join(ROOT, "evidence")   # (override: runs against seeded changes must not touch the committed evidence)
REPLAY_DIR = os.path.join(EVIDENCE_DIR, "replays")
WORK_ROOT = os.path.join(ROOT, ".work")
KNOWN_FINDINGS = os.path.join(ROOT, "known_findings.json")
NCPU = min(16, os.cpu_count() or 1)

DISCHARGED = "discharged"
CEX = "counterexample"
INCONCLUSIVE = "inconclusive"


@dataclass
class Obligation:
    """One (property clause, shape) pair decided by one or more solver queries."""
    oid: str                      # e.g. "O1/n=4/sites=1,3"
    clause: str                   # which clause of the property text
    engine: str                   # E1 crosshair | E2 symreal | E0 smt
    status: str = INCONCLUSIVE    # discharged | counterexample | inconclusive
    detail: str = ""
    paths: int = 0                # execution paths explored
    queries: int = 0              # solver queries (E2/E0; E1: not exposed by CrossHair -> 0)
    solver_s: float = 0.0
    wall_s: float = 0.0
    witness: Any = None           # reachability witness (vacuity guard)
    cex: Any = None               # concrete counterexample inputs (before replay)
    replayed: Optional[bool] = None
    finding: Optional[str] = None  # id of the known finding this cex matches
    functions: List[str] = field(default_factory=list)
    bounds: str = ""


@dataclass
class Report:
    property_id: str
    tier: str
    seed: int
    explanation: str
    functions: List[str]
    bounds: str
    outside: str
    assumptions: List[str]
    obligations: List[Obligation] = field(default_factory=list)
    validation: List[str] = field(default_factory=list)   # engine-validation points that were run
    extra: Dict[str, Any] = field(default_factory=dict)
    harness_errors: List[str] = field(default_factory=list)


def load_known_findings(pid: str) -> List[dict]:
    if not os.path.exists(KNOWN_FINDINGS):
        return []
    with open(KNOWN_FINDINGS) as fh:
        data = json.load(fh)
    return [f for f in data.get("findings", []) if f.get("property") == pid]


def workdir(pid: str) -> str:
    d = os.path.join(WORK_ROOT, f"{pid}.{os.getpid()}")
    os.makedirs(d, exist_ok=True)
    return d


def cleanup_workdir(pid: str) -> None:
    shutil.rmtree(os.path.join(WORK_ROOT, f"{pid}.{os.getpid()}"), ignore_errors=True)
    try:
        os.rmdir(WORK_ROOT)
    except OSError:
        pass


def write_replay(pid: str, n: int, record: dict) -> str:
    os.makedirs(REPLAY_DIR, exist_ok=True)
    path = os.path.join(REPLAY_DIR, f"{pid}-{n}.json")
    with open(path, "w") as fh:
        json.dump(record, fh, indent=1, default=repr)
    return path


def _jsonable(x: Any) -> Any:
    try:
        json.dumps(x)
        return x
    except Exception:
        return repr(x)


def finish(report: Report, t0: float) -> int:
    """Print verdict lines, write evidence, return the exit code."""
    pid = report.property_id
    obs = report.obligations
    n_dis = sum(1 for o in obs if o.status == DISCHARGED)
    n_inc = sum(1 for o in obs if o.status == INCONCLUSIVE)
    cexs = [o for o in obs if o.status == CEX]
    known_ids = {f["id"]: f for f in load_known_findings(pid)}
    violations = []
    known_hit: Dict[str, Obligation] = {}
    for o in cexs:
        if o.replayed is False:
            report.harness_errors.append(
                f"{o.oid}: solver counterexample did not reproduce on the unpatched library: {o.cex!r} ({o.detail})")
            continue
        if o.finding and o.finding in known_ids:
            known_hit.setdefault(o.finding, o)
        else:
            violations.append(o)
    for fid, o in sorted(known_hit.items()):
        print(f"KNOWN-FINDING: property={pid} {fid}: {known_ids[fid]['what']} [witness {o.oid}: {_short(o.cex)}]")
    vio_paths = []
    if os.path.isdir(REPLAY_DIR):
        for fn in os.listdir(REPLAY_DIR):
            if fn.startswith(pid + "-"):
                os.unlink(os.path.join(REPLAY_DIR, fn))
    for i, o in enumerate(violations):
        path = write_replay(pid, i, {"property": pid, "obligation": o.oid, "clause": o.clause, "engine": o.engine,
                                     "inputs": _jsonable(o.cex), "detail": o.detail,
                                     "replay_key": report.extra.get("replay_key", {}).get(o.oid)})
        vio_paths.append(path)
        print(f"VIOLATION property={pid} replay={path}")
        print(f"  obligation {o.oid}: {o.detail} inputs={_short(o.cex)}")
    samples = []
    for o in obs:
        if o.witness is not None and len(samples) < 6:
            samples.append({"obligation": o.oid, "status": o.status, "reachability_witness": _jsonable(o.witness)})
    for o in cexs[:6]:
        samples.append({"obligation": o.oid, "status": o.status, "counterexample": _jsonable(o.cex),
                        "known_finding": o.finding, "replayed_on_real_code": o.replayed})
    if not samples and obs:
        samples.append({"obligation": obs[0].oid, "status": obs[0].status, "detail": obs[0].detail})
    nontrivial = len({o.oid for o in obs if o.paths > 0 and o.status != INCONCLUSIVE})
    wall = time.time() - t0
    ev = {
        "property_id": pid,
        "tier": report.tier,
        "seed": report.seed,
        "level": "other",
        "coverage": {
            "explanation": report.explanation,
            "obligations": len(obs),
            "discharged": n_dis,
            "inconclusive": n_inc,
            "counterexamples": len(cexs),
            "known_findings_hit": sorted(known_hit),
            "evaluations": sum(o.paths for o in obs),
            "distinct_nontrivial": nontrivial,
            "rule": "an obligation = (property clause, enumerated shape); it is decided by symbolic execution of the real "
                    "functions with one SMT query per path (E2) or CrossHair's per-path z3 queries (E1); evaluations = "
                    "execution paths explored; distinct_nontrivial = obligations that explored >=1 feasible path that reached "
                    "the assertion and were decided (discharged or counterexample)",
            "samples": samples,
            "functions_encoded": report.functions,
            "bounds": report.bounds,
            "outside_the_claim": report.outside,
            "solver_queries": sum(o.queries for o in obs),
            "solver_seconds": round(sum(o.solver_s for o in obs), 3),
            "engine_cpu_seconds": round(sum(o.wall_s for o in obs), 3),
            "engines": sorted({o.engine for o in obs}),
            "engine_validation": report.validation,
            "inconclusive_obligations": [{"oid": o.oid, "why": o.detail[:200]} for o in obs if o.status == INCONCLUSIVE][:40],
            "exhaustive": bool(obs) and n_inc == 0 and not report.harness_errors,
            "obligation_table": [
                {"oid": o.oid, "clause": o.clause, "engine": o.engine, "status": o.status, "paths": o.paths,
                 "queries": o.queries, "solver_s": round(o.solver_s, 3), "cpu_s": round(o.wall_s, 2),
                 **({"finding": o.finding} if o.finding else {})}
                for o in obs][:400],
            **report.extra.get("coverage", {}),
        },
        "assumptions": report.assumptions,
        "wall_s": round(wall, 2),
        "violations": len(violations),
    }
    os.makedirs(EVIDENCE_DIR, exist_ok=True)
    with open(os.path.join(EVIDENCE_DIR, f"{pid}.json"), "w") as fh:
        json.dump(ev, fh, indent=1, default=repr)
    print(f"[{pid}] tier={report.tier} obligations={len(obs)} discharged={n_dis} inconclusive={n_inc} "
          f"counterexamples={len(cexs)} known={len(known_hit)} violations={len(violations)} "
          f"paths={ev['coverage']['evaluations']} wall={wall:.1f}s")
    for o in obs:
        if o.status == INCONCLUSIVE:
            print(f"  inconclusive: {o.oid}: {o.detail[:160]}")
    if violations:
        return 1
    if report.harness_errors:
        for e in report.harness_errors:
            print("HARNESS-ERROR: " + e, file=sys.stderr)
        return 3
    return 0


def _short(x: Any, n: int = 300) -> str:
    s = repr(x)
    return s if len(s) <= n else s[:n] + "..."


def run_parallel(tasks: List[Callable[[], Any]], workers: int = NCPU, processes: bool = False) -> List[Any]:
    """Run thunks; threads by default (each thunk usually waits on a subprocess)."""
    if not tasks:
        return []
    out: List[Any] = [None] * len(tasks)
    Pool = ProcessPoolExecutor if processes else ThreadPoolExecutor
    with Pool(max_workers=workers) as ex:
        futs = {ex.submit(t): i for i, t in enumerate(tasks)}
        for f in as_completed(futs):
            out[futs[f]] = f.result()
    return out
