"""E1: run harness conditions under CrossHair (symbolic execution of the real Python code with z3).

A condition = a generic harness function (in vf/h/*.py) + a concrete *shape* (keyword arguments that are
enumerated outside the solver) + a list of symbolic parameters with PEP316 preconditions.  For each condition
one file is generated that holds the property function (`post: __return__`) and its reachability twin
(`post: not __return__`, must be falsified).  Verdicts:
  Confirmed over all paths           -> discharged (only if the twin produced a witness)
  error: false / exception           -> counterexample, replayed natively on the unpatched library
  Not confirmed / Unable to meet ... -> inconclusive
"""
from __future__ import annotations

import json
import os
import re
import subprocess
import sys
import time
from dataclasses import dataclass, field
from typing import Any, Dict, List, Optional, Sequence, Tuple

from .common import (CEX, DISCHARGED, INCONCLUSIVE, NCPU, ROOT, Obligation, run_parallel, workdir)

PY = os.path.join(ROOT, ".venv", "bin", "python")


@dataclass
class Cond:
    oid: str
    clause: str
    module: str                       # e.g. "vf.h.c06"
    func: str                         # generic harness function in that module
    shape: Dict[str, Any]             # concrete kwargs (must survive repr/eval)
    sym: Sequence[Tuple[str, str]]    # (name, type annotation source)
    pre: Sequence[str] = ()
    timeout: int = 40
    raises: str = ""                  # e.g. "ValueError"
    functions: Sequence[str] = ()
    bounds: str = ""
    excl: Tuple[str, ...] = ()        # ids of known findings assumed away in this run
    twin: bool = True
    approx: bool = False              # the condition runs under an over-approximating stub: a counterexample that does not
                                      # reproduce natively is inconclusive, not a harness error


_TEMPLATE = '''\
import os, sys
sys.path.insert(0, {root!r})
from typing import *
import {module} as H
if not os.environ.get("VF_NOSTUB"):
    H.install_stubs()


def cond({params}) -> bool:
    """
{pre}{raises}    post: __return__
    """
    return H.{func}({call})


def twin({params}) -> bool:
    """
{pre}{raises}    post: not __return__
    """
    H.{func}({call})
    return True
'''


def _gen(c: Cond, path: str) -> None:
    params = ", ".join(f"{n}: {t}" for n, t in c.sym)
    shape = dict(c.shape)
    if c.excl:
        shape["excl"] = tuple(c.excl)
    call = ", ".join([f"{k}={v!r}" for k, v in shape.items()] + [f"{n}={n}" for n, _ in c.sym])
    pre = "".join(f"    pre: {p}\n" for p in c.pre)
    raises = f"    raises: {c.raises}\n" if c.raises else ""
    with open(path, "w") as fh:
        fh.write(_TEMPLATE.format(root=ROOT, module=c.module, params=params, pre=pre, raises=raises,
                                  func=c.func, call=call))


_CALL_RE = re.compile(r"when calling (cond|twin)\((.*?)\)(?: with (crosshair\.patch_to_return\(.*\)))?\s*$")


def _parse_args(argstr: str) -> Optional[Dict[str, Any]]:
    def _cap(*a, **k):
        return a, k
    try:
        a, k = eval(f"_cap({argstr})", {"_cap": _cap, "float": float, "inf": float("inf"), "nan": float("nan")})
    except Exception:
        return None
    return {"args": list(a), "kwargs": k}


def _parse_output(text: str) -> Dict[str, Dict[str, Any]]:
    """-> {'cond': {...}, 'twin': {...}} each with kind in confirmed|notconfirmed|unable|error and optional call."""
    res: Dict[str, Dict[str, Any]] = {}
    # line numbers: cond's def is before twin's; messages carry the line of the def/docstring; map by order
    entries = []
    for line in text.splitlines():
        m = re.match(r"^(.*?\.py):(\d+): (error|info|warning): (.*)$", line)
        if not m:
            continue
        entries.append((int(m.group(2)), m.group(3), m.group(4)))
    for lineno, level, msg in entries:
        which = None
        mcall = None
        core = msg
        if " (which returns" in core:
            core = core[: core.rindex(" (which returns")]
        mm = _CALL_RE.search(core)
        if mm:
            which = mm.group(1)
            mcall = _parse_args(mm.group(2))
            if mcall is not None and mm.group(3):
                mcall["patch"] = mm.group(3)
        rec: Dict[str, Any] = {"line": lineno, "msg": msg}
        if level == "info" and msg.startswith("Confirmed over all paths"):
            rec["kind"] = "confirmed"
        elif level == "info" and msg.startswith("Not confirmed"):
            rec["kind"] = "notconfirmed"
        elif level == "info" and msg.startswith("Unable to meet precondition"):
            rec["kind"] = "unable"
        elif level == "error":
            rec["kind"] = "error"
            rec["call"] = mcall
        else:
            rec["kind"] = "other"
        rec["which"] = which
        res.setdefault("_all", []).append(rec)  # type: ignore
    return res


def _assign(entries: List[Dict[str, Any]], cond_line: int, twin_line: int) -> Dict[str, Dict[str, Any]]:
    out: Dict[str, Dict[str, Any]] = {}
    for rec in entries:
        w = rec.get("which")
        if w is None:
            w = "twin" if rec["line"] >= twin_line else "cond"
        # first verdict wins, but an error overrides an info
        if w not in out or (rec["kind"] == "error" and out[w]["kind"] != "error"):
            out[w] = rec
    return out


def replay_native(module: str, func: str, shape: Dict[str, Any], call: Dict[str, Any], sym_names: Sequence[str],
                  excl: Sequence[str] = ()) -> Dict[str, Any]:
    """Run the harness function concretely, without stubs, in a fresh interpreter."""
    kwargs = dict(shape)
    if excl:
        kwargs["excl"] = tuple(excl)
    args = list(call.get("args", []))
    for n, v in zip(sym_names, args):
        kwargs[n] = v
    kwargs.update(call.get("kwargs", {}))
    code = (
        "import sys, json\n"
        f"sys.path.insert(0, {ROOT!r})\n"
        f"import {module} as H\n"
        f"kw = {kwargs!r}\n"
        "out = {}\n"
        "import contextlib\n"
        f"patch = {call.get('patch')!r}\n"
        "ctx = contextlib.nullcontext()\n"
        "if patch:\n"
        "    import crosshair, _random, random\n"
        "    ctx = eval(patch)\n"
        "try:\n"
        "  with ctx:\n"
        f"    r = H.{func}(**kw)\n"
        "    out['ok'] = bool(r is True)\n"
        "    out['ret'] = repr(r)\n"
        "except BaseException as e:\n"
        "    out['ok'] = False\n"
        "    out['exc'] = type(e).__name__ + ': ' + str(e)[:300]\n"
        "out['last'] = repr(getattr(H, 'LAST', None))[:1500]\n"
        "out['site'] = getattr(H, 'SITE', None)\n"
        "print('@@' + json.dumps(out))\n"
    )
    env = dict(os.environ, VF_NOSTUB="1")
    p = subprocess.run([PY, "-W", "ignore", "-c", code], capture_output=True, text=True, env=env, timeout=300)
    for line in p.stdout.splitlines():
        if line.startswith("@@"):
            d = json.loads(line[2:])
            d["kwargs"] = kwargs
            return d
    return {"ok": None, "exc": "replay crashed: " + p.stderr[-400:], "kwargs": kwargs}


def probe_hang(c: Cond) -> Optional[Dict[str, Any]]:
    code = (
        "import sys, json\n"
        f"sys.path.insert(0, {ROOT!r})\n"
        f"import {c.module} as H\n"
        f"print('@@' + json.dumps(getattr(H, 'HANG_PROBES', {{}}).get({c.func!r}, [])))\n")
    try:
        p = subprocess.run([PY, "-W", "ignore", "-c", code], capture_output=True, text=True, env=dict(os.environ, VF_NOSTUB="1"), timeout=60)
        probes = []
        for line in p.stdout.splitlines():
            if line.startswith("@@"):
                probes = json.loads(line[2:])
    except Exception:
        return None
    for kw in probes[:40]:
        full = dict(c.shape)
        full.update(kw)
        run = (
            "import sys\n"
            f"sys.path.insert(0, {ROOT!r})\n"
            f"import {c.module} as H\n"
            "try:\n"
            f"    H.{c.func}(**{full!r})\n"
            "except BaseException:\n"
            "    pass\n")
        try:
            subprocess.run([PY, "-W", "ignore", "-c", run], capture_output=True, text=True, env=dict(os.environ, VF_NOSTUB="1"), timeout=10)
        except subprocess.TimeoutExpired:
            return full
    return None


def run_cond(c: Cond, wd: str, idx: int) -> Obligation:
    path = os.path.join(wd, f"c{idx}.py")
    _gen(c, path)
    ob = Obligation(oid=c.oid, clause=c.clause, engine="E1 crosshair", functions=list(c.functions), bounds=c.bounds)
    t0 = time.time()
    cmd = [PY, "-W", "ignore", "-m", "crosshair", "check", "--report_all",
           "--per_condition_timeout", str(c.timeout), path]
    try:
        p = subprocess.run(cmd, capture_output=True, text=True, timeout=c.timeout * 2 + 60,
                           env=dict(os.environ, PYTHONHASHSEED="0"))
        text = p.stdout + "\n" + p.stderr
    except subprocess.TimeoutExpired as e:
        ob.wall_s = time.time() - t0
        ob.detail = "crosshair process exceeded its wall cap"
        # CrossHair normally stops itself at per_condition_timeout; running past the wall cap means a path never returned
        # control (a loop without a symbolic decision).  Triage: replay the harness's declared hang probes natively under a
        # short timeout; a probe that does not return is a confirmed hang and is reported as a counterexample.
        hang = probe_hang(c)
        if hang is not None:
            ob.status = CEX
            ob.replayed = True
            ob.cex = {"call": f"{c.module}.{c.func}", "kwargs": hang, "native": {"exc": "did not return within 10 s (hang)"}}
            ob.detail = f"hang: {c.func}(**{hang!r}) does not return"
        return ob
    ob.wall_s = time.time() - t0
    src = open(path).read().splitlines()
    cond_line = next(i + 1 for i, l in enumerate(src) if l.startswith("def cond("))
    twin_line = next(i + 1 for i, l in enumerate(src) if l.startswith("def twin("))
    entries = _parse_output(text).get("_all", [])
    got = _assign(entries, cond_line, twin_line)  # type: ignore
    cond = got.get("cond")
    twin = got.get("twin")
    ob.paths = 1  # CrossHair does not report path counts on the CLI; see evidence 'rule'
    if twin and twin["kind"] == "error" and twin.get("call"):
        ob.witness = twin["call"]
    if cond is None:
        ob.detail = "no verdict from crosshair: " + text[-300:]
        ob.paths = 0
        return ob
    if cond["kind"] == "error":
        ob.status = CEX
        ob.cex = cond.get("call")
        ob.detail = cond["msg"][:300]
        if ob.cex is None:
            ob.status = INCONCLUSIVE
            ob.detail = "counterexample could not be parsed: " + cond["msg"][:300]
            return ob
        rp = replay_native(c.module, c.func, c.shape, ob.cex, [n for n, _ in c.sym], c.excl)
        ob.replayed = (rp.get("ok") is False)
        if c.approx and not ob.replayed:
            ob.status = INCONCLUSIVE
            ob.replayed = None
            ob.detail = "counterexample under an over-approximating stub did not reproduce natively: " + repr(ob.cex)[:200]
            return ob
        ob.cex = {"call": f"{c.module}.{c.func}", "kwargs": rp.get("kwargs"), "native": {k: rp.get(k) for k in ("ret", "exc", "last")},
                  **({"patch": ob.cex["patch"]} if isinstance(ob.cex, dict) and ob.cex.get("patch") else {})}
        ob.finding = rp.get("site")
        ob.detail = (rp.get("exc") or rp.get("last") or ob.detail)[:400]
        return ob
    if cond["kind"] == "confirmed":
        if c.twin and ob.witness is None:
            ob.status = INCONCLUSIVE
            ob.detail = f"confirmed but reachability twin not violated ({twin['kind'] if twin else 'no verdict'}): vacuity not excluded"
        else:
            ob.status = DISCHARGED
            ob.detail = "Confirmed over all paths"
        return ob
    ob.status = INCONCLUSIVE
    ob.detail = cond["msg"][:200]
    return ob


def run_conds(conds: List[Cond], pid: str, workers: int = NCPU, known: Sequence[dict] = ()) -> List[Obligation]:
    """Run all conditions; for a counterexample that matches a known finding, re-run the same condition with the
    finding's region assumed away (so the rest of the obligation is still decided)."""
    wd = workdir(pid)
    known_ids = {f["id"] for f in known}
    import itertools, threading
    counter = itertools.count(1)

    def job(c: Cond):
        out = []
        cur = c
        for _round in range(4):
            ob = run_cond(cur, wd, next(counter))
            out.append(ob)
            if ob.status == CEX and ob.replayed and ob.finding in known_ids and ob.finding not in cur.excl:
                cur = Cond(**{**cur.__dict__, "excl": tuple(cur.excl) + (ob.finding,),
                              "oid": c.oid + "/minus-" + "-".join(tuple(cur.excl) + (ob.finding,))})
                continue
            break
        return out

    order = sorted(range(len(conds)), key=lambda i: -conds[i].timeout)      # long conditions first (better packing)
    res = run_parallel([lambda c=conds[i]: job(c) for i in order], workers=workers)
    back = {i: r for i, r in zip(order, res)}
    return [o for i in range(len(conds)) for o in back[i]]


def thin(conds: List[Cond], cap: int, keep: Sequence[str] = ()) -> List[Cond]:
    """Bound a thorough enumeration: keep every condition whose id is in `keep` (the quick tier's, so thorough ⊇ quick), then fill
    up to `cap` with the others, taken evenly spaced *within each family* (first segment of the id), so that no family is dropped.
    Deterministic; the obligations actually run are listed in the evidence file."""
    if len(conds) <= cap:
        return conds
    keep = set(keep)
    chosen = [c for c in conds if c.oid in keep]
    rest: Dict[str, List[Cond]] = {}
    for c in conds:
        if c.oid not in keep:
            rest.setdefault(c.oid.split("/")[0], []).append(c)
    room = max(0, cap - len(chosen))
    total = sum(len(v) for v in rest.values())
    picked = set()
    for fam, lst in rest.items():
        k = max(1, round(room * len(lst) / total)) if room else 0
        if k >= len(lst):
            picked.update(id(c) for c in lst)
        elif k:
            step = len(lst) / k
            picked.update(id(lst[int(i * step)]) for i in range(k))
    return [c for c in conds if c.oid in keep or id(c) in picked]


def tier_conds(build, tier: str, cap: int, tmax: int = 300) -> List[Cond]:
    """the conditions of a tier; the thorough enumeration is capped (see thin) and each condition's budget bounded, so that a thorough
    run ends in tens of minutes on 16 cores instead of hours - what is cut is reported as not run, never as held"""
    conds = build(tier)
    if tier != "thorough":
        return conds
    conds = thin(conds, cap, [c.oid for c in build("quick")])
    for c in conds:
        c.timeout = min(c.timeout, tmax)
    return conds
