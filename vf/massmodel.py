"""Scenario description shared by the E2 mass harnesses (C02, C03, C04, C05, C12, C18).

A *scenario* is a JSON-able dict describing an annotation shape; numeric quantities the solver ranges over are referred
to by slot names ("v0", "v1", ..., "loss").  `build()` instantiates the scenario with numbers (symbols or floats), so
the same description drives the symbolic run and the native replay.

Env = where the oracle gets its constants: in symbolic runs the library tables are rebound to symbols (S4) and Env
returns the same symbols; in real runs (replay, pinned mode) it returns the library's real constants.
"""
from __future__ import annotations

import contextlib
from typing import Any, Callable, Dict, List, Optional, Sequence, Tuple

from . import symreal as SR
from .e2lib import patched, token_convert_type_patches

ADDUCT_IONS = {  # ion text -> (element, ion charge)
    "H+": ("H", 1), "Na+": ("Na", 1), "K+": ("K", 1), "Li+": ("Li", 1), "Mg2+": ("Mg", 2), "Ca2+": ("Ca", 2),
    "Cl-": ("Cl", -1), "I-": ("I", -1), "e-": ("e", -1),
}

FORMULAS = {  # name -> composition (element -> count); spelled "Formula:<text>"
    "C2H3": ({"C": 2, "H": 3}, "C2H3"),
    "C2": ({"C": 2}, "C2"),
    "H-2O": ({"H": -2, "O": 1}, "H-2O"),
    "[13C2]N": ({"13C": 2, "N": 1}, "[13C2]N"),
    "C2[13C1]H3": ({"C": 2, "13C": 1, "H": 3}, "C2[13C1]H3"),
    "O": ({"O": 1}, "O"),
    "C2H2[13C2]H2O": ({"C": 2, "H": 4, "13C": 2, "O": 1}, "C2H2[13C2]H2O"),     # an element on both sides of an isotope bracket
    "[13C2]H3N[13C]": ({"13C": 3, "H": 3, "N": 1}, "[13C2]H3N[13C]"),           # the same isotope in two brackets
}
GLYCANS = {"Hex": {"Hex": 1}, "Hex2": {"Hex": 2}, "HexNAc": {"HexNAc": 1}, "HexNAc2Hex3": {"HexNAc": 2, "Hex": 3}}
UNIMODS = {"Acetyl": "Acetyl", "UNIMOD:1": "Acetyl", "U:Oxidation": "Oxidation", "Phospho": "Phospho",
           "UNIMOD:Carbamidomethyl": "Carbamidomethyl"}


def is_isotope_symbol(el: str) -> bool:
    return el[0].isdigit() or el in ("D", "T")


class Env:
    """Constant provider.  sym=True: fresh named symbols; sym=False: the library's real values."""

    def __init__(self, sym: bool, real_parts: Sequence[str] = ()):
        """real_parts: subset of {'aa','fa','fi','particles','el','um','gl'} kept at their real values even if sym."""
        _capture_real()
        self.real_parts = set(real_parts)
        import peptacular.constants as K
        import peptacular.chem.chem_constants as CC
        from peptacular.mods.mod_db_setup import UNIMOD_DB, MONOSACCHARIDES_DB
        self.sym = sym
        self.K, self.CC = K, CC
        self.UNIMOD_DB, self.MONO_DB = UNIMOD_DB, MONOSACCHARIDES_DB
        self._used: Dict[str, Any] = {}
        self.symbols: Dict[str, Any] = {}

    def _v(self, name: str, real: float):
        if name not in self._used:
            part = name.split("_")[0]
            part = "particles" if part in ("proton", "neutron", "electron") else part
            if self.sym and part not in self.real_parts:
                self._used[name] = SR.real(name)
                self.symbols[name] = self._used[name]
            else:
                self._used[name] = real
        return self._used[name]

    def aa(self, letter: str, mono: bool):
        t = self.CC.MONOISOTOPIC_AA_MASSES if mono else self.CC.AVERAGE_AA_MASSES
        return self._v(f"aa_{'m' if mono else 'a'}_{letter}", _REAL["aa", mono][letter])

    def fa(self, ion: str, mono: bool):   # neutral fragment adjustment (p: water)
        return self._v(f"fa_{'m' if mono else 'a'}_{ion}", _REAL["fa", mono][ion])

    def fi(self, ion: str, mono: bool):   # fragment ion (+1) adjustment
        return self._v(f"fi_{'m' if mono else 'a'}_{ion}", _REAL["fi", mono][ion])

    @property
    def proton(self):
        return self._v("proton", _REAL["proton"])

    @property
    def neutron(self):
        return self._v("neutron", _REAL["neutron"])

    @property
    def electron(self):
        return self._v("electron", _REAL["electron"])

    def el(self, el: str, mono: bool):
        if el == "e":
            return self.electron
        if el == "p":
            return self.proton
        if el == "n":
            return self.neutron
        if mono or is_isotope_symbol(el):
            return self._v(f"el_m_{el}", _REAL["el", True][el])
        return self._v(f"el_a_{el}", _REAL["el", False][el])

    def unimod(self, name: str, mono: bool):
        e = self.UNIMOD_DB.get_entry_by_name(name)
        return self._v(f"um_{'m' if mono else 'a'}_{name}", _REAL["um", mono, name])

    def mono_sacch(self, name: str, mono: bool):
        return self._v(f"gl_{'m' if mono else 'a'}_{name}", _REAL["gl", mono, name])


_REAL: Dict[Any, Any] = {}


def _capture_real() -> None:
    if _REAL:
        return
    import peptacular.constants as K
    import peptacular.chem.chem_constants as CC
    from peptacular.mods.mod_db_setup import UNIMOD_DB, MONOSACCHARIDES_DB
    _REAL["aa", True] = dict(CC.MONOISOTOPIC_AA_MASSES)
    _REAL["aa", False] = dict(CC.AVERAGE_AA_MASSES)
    _REAL["fa", True] = dict(CC.MONOISOTOPIC_FRAGMENT_ADJUSTMENTS)
    _REAL["fa", False] = dict(CC.AVERAGE_FRAGMENT_ADJUSTMENTS)
    _REAL["fi", True] = dict(CC.MONOISOTOPIC_FRAGMENT_ION_ADJUSTMENTS)
    _REAL["fi", False] = dict(CC.AVERAGE_FRAGMENT_ION_ADJUSTMENTS)
    _REAL["proton"] = K.PROTON_MASS
    _REAL["neutron"] = K.NEUTRON_MASS
    _REAL["electron"] = K.ELECTRON_MASS
    _REAL["el", True] = dict(K.ISOTOPIC_ATOMIC_MASSES)
    _REAL["el", False] = dict(K.AVERAGE_ATOMIC_MASSES)
    for name in set(UNIMODS.values()):
        e = UNIMOD_DB.get_entry_by_name(name)
        _REAL["um", True, name] = e.mono_mass
        _REAL["um", False, name] = e.avg_mass
    for name in ("Hex", "HexNAc", "Fuc", "Neu5Ac"):
        e = MONOSACCHARIDES_DB.get_entry_by_name(name)
        _REAL["gl", True, name] = e.mono_mass
        _REAL["gl", False, name] = e.avg_mass


# ---------------------------------------------------------------------------------------------------------------
# scenario -> annotation

def mod_value(spec: Sequence[Any], V: Callable[[str], Any]):
    """spec = (kind, arg, mult). Returns the value to put in Mod.val."""
    kind, arg = spec[0], spec[1]
    if kind == "num":
        return V(arg)
    if kind == "formula":
        return "Formula:" + FORMULAS[arg][1]
    if kind == "glycan":
        return "Glycan:" + arg
    if kind == "unimod":
        return arg
    raise ValueError(kind)


def mod_mass_oracle(spec: Sequence[Any], V: Callable[[str], Any], env: Env, mono: bool):
    kind, arg, mult = spec[0], spec[1], spec[2]
    if kind == "num":
        m = V(arg)
    elif kind == "formula":
        m = 0
        for el, cnt in FORMULAS[arg][0].items():
            m = m + env.el(el, mono) * cnt
    elif kind == "glycan":
        m = 0
        for ms, cnt in GLYCANS[arg].items():
            m = m + env.mono_sacch(ms, mono) * cnt
    elif kind == "unimod":
        m = env.unimod(UNIMODS[arg], mono)
    else:
        raise ValueError(kind)
    return m * mult


def build(sc: Dict[str, Any], V: Callable[[str], Any]):
    """Instantiate the scenario as a ProFormaAnnotation through the public constructor."""
    from peptacular.proforma.proforma_parser import create_annotation
    from peptacular.proforma.proforma_dataclasses import Mod, Interval

    def M(spec):
        return Mod(mod_value(spec, V), spec[2])

    kw: Dict[str, Any] = {}
    for slot in ("labile", "unknown", "nterm", "cterm"):
        if sc.get(slot):
            kw[f"{slot}_mods"] = [M(s) for s in sc[slot]]
    if sc.get("internal"):
        kw["internal_mods"] = {int(k): [M(s) for s in specs] for k, specs in sc["internal"].items()}
    if sc.get("intervals"):
        kw["intervals"] = [Interval(a, b, amb, [M(s) for s in specs] if specs else None)
                           for (a, b, amb, specs) in sc["intervals"]]
    if sc.get("static"):
        st = []
        for targets, specs in sc["static"]:
            body = "".join(Mod(mod_value(s, V), 1).serialize("[]") for s in specs)
            st.append(Mod(f"{body}@{','.join(targets)}", 1))
        kw["static_mods"] = st
    if sc.get("isotope_labels"):
        kw["isotope_mods"] = [Mod(l, 1) for l in sc["isotope_labels"]]
    if sc.get("charge") is not None and sc.get("charge_in_annotation"):
        kw["charge"] = sc["charge"]
    if sc.get("adducts") and sc.get("adducts_in_annotation"):
        kw["charge_adducts"] = [Mod(sc["adducts"], 1)]
    return create_annotation(sc["seq"], **kw)


def adduct_list(sc) -> List[Tuple[int, str]]:
    out = []
    if not sc.get("adducts"):
        return out
    for part in sc["adducts"].split(","):
        sign = -1 if part[0] == "-" else 1
        body = part[1:]
        i = 0
        while i < len(body) and body[i].isdigit():
            i += 1
        cnt = int(body[:i]) if i else 1
        out.append((sign * cnt, body[i:]))
    return out


def adduct_mass_oracle(sc, env: Env, mono: bool, known_wrong: bool = False):
    """exactly the stated adduct ions: sum count * (element - ioncharge * electron).
    known_wrong=True: the arithmetic of known finding C02-F1 (one ion charge worth of electrons per adduct *kind*)."""
    m = 0
    for cnt, ion in adduct_list(sc):
        el, q = ADDUCT_IONS[ion]
        if el == "e":
            m = m + env.electron * cnt
        elif known_wrong:
            m = m + env.el(el, mono) * cnt - env.electron * q
        else:
            m = m + (env.el(el, mono) - env.electron * q) * cnt
    return m


def residue_and_mod_mass_oracle(sc, V, env: Env, mono: bool, ion: str = "p", start: int = 0, end: Optional[int] = None,
                                with_nterm: bool = True, with_cterm: bool = True):
    """sum of residue masses of seq[start:end] + every modification that sits on them (times multiplier)."""
    seq = sc["seq"]
    end = len(seq) if end is None else end
    m = 0
    for aa in seq[start:end]:
        m = m + env.aa(aa, mono)
    if ion == "p":
        for s in sc.get("labile") or []:
            m = m + mod_mass_oracle(s, V, env, mono)
    for s in sc.get("unknown") or []:
        m = m + mod_mass_oracle(s, V, env, mono)
    if with_nterm:
        for s in sc.get("nterm") or []:
            m = m + mod_mass_oracle(s, V, env, mono)
    if with_cterm:
        for s in sc.get("cterm") or []:
            m = m + mod_mass_oracle(s, V, env, mono)
    for k, specs in (sc.get("internal") or {}).items():
        if start <= int(k) < end:
            for s in specs:
                m = m + mod_mass_oracle(s, V, env, mono)
    for (a, b, amb, specs) in sc.get("intervals") or []:
        for s in specs or []:
            m = m + mod_mass_oracle(s, V, env, mono)
    for targets, specs in sc.get("static") or []:
        per = 0
        for s in specs:
            per = per + mod_mass_oracle((s[0], s[1], 1), V, env, mono)
        for t in targets:
            if t == "N-Term":
                if with_nterm:
                    m = m + per
            elif t == "C-Term":
                if with_cterm:
                    m = m + per
            else:
                m = m + per * seq[start:end].count(t)
    return m


@contextlib.contextmanager
def symbolic_tables(sc_list: Sequence[Dict[str, Any]], env: Env, ions: Sequence[str] = ("p",)):
    """S4: rebind exactly the constants the scenarios can touch to the Env's symbols (both monoisotopic and average
    variants, independent symbols), restore on exit.  Also installs the S7 token round trip."""
    import peptacular.constants as K
    import peptacular.chem.chem_constants as CC
    _capture_real()
    letters = sorted({c for sc in sc_list for c in sc["seq"]})
    elements = set()
    unimods = set()
    sacch = set()

    def scan(spec):
        if spec[0] == "formula":
            elements.update(FORMULAS[spec[1]][0].keys())
        elif spec[0] == "unimod":
            unimods.add(UNIMODS[spec[1]])
        elif spec[0] == "glycan":
            sacch.update(GLYCANS[spec[1]].keys())

    for sc in sc_list:
        for slot in ("labile", "unknown", "nterm", "cterm"):
            for s in sc.get(slot) or []:
                scan(s)
        for specs in (sc.get("internal") or {}).values():
            for s in specs:
                scan(s)
        for iv in sc.get("intervals") or []:
            for s in iv[3] or []:
                scan(s)
        for t, specs in sc.get("static") or []:
            for s in specs:
                scan(s)
        for cnt, ion in adduct_list(sc):
            if ADDUCT_IONS[ion][0] != "e":
                elements.add(ADDUCT_IONS[ion][0])
    du = [
        (CC.MONOISOTOPIC_AA_MASSES, {l: env.aa(l, True) for l in letters}),
        (CC.AVERAGE_AA_MASSES, {l: env.aa(l, False) for l in letters}),
        (CC.MONOISOTOPIC_FRAGMENT_ADJUSTMENTS, {i: env.fa(i, True) for i in ions}),
        (CC.AVERAGE_FRAGMENT_ADJUSTMENTS, {i: env.fa(i, False) for i in ions}),
        (CC.MONOISOTOPIC_FRAGMENT_ION_ADJUSTMENTS, {i: env.fi(i, True) for i in ions}),
        (CC.AVERAGE_FRAGMENT_ION_ADJUSTMENTS, {i: env.fi(i, False) for i in ions}),
        (K.ISOTOPIC_ATOMIC_MASSES, {e: env.el(e, True) for e in elements}),
        (K.AVERAGE_ATOMIC_MASSES, {e: env.el(e, False) for e in elements if not is_isotope_symbol(e)}),
    ]
    attrs = []
    for name in unimods:
        e = env.UNIMOD_DB.get_entry_by_name(name)
        attrs.append((e, "mono_mass", env.unimod(name, True)))
        attrs.append((e, "avg_mass", env.unimod(name, False)))
    for name in sacch:
        e = env.MONO_DB.get_entry_by_name(name)
        attrs.append((e, "mono_mass", env.mono_sacch(name, True)))
        attrs.append((e, "avg_mass", env.mono_sacch(name, False)))
    attrs.extend(token_convert_type_patches())
    scal = {"PROTON_MASS": env.proton, "NEUTRON_MASS": env.neutron, "ELECTRON_MASS": env.electron}
    with patched(du, scal, attrs):
        yield


def value_slots(sc) -> List[str]:
    out = []

    def scan(spec):
        if spec[0] == "num" and spec[1] not in out:
            out.append(spec[1])

    for slot in ("labile", "unknown", "nterm", "cterm"):
        for s in sc.get(slot) or []:
            scan(s)
    for specs in (sc.get("internal") or {}).values():
        for s in specs:
            scan(s)
    for iv in sc.get("intervals") or []:
        for s in iv[3] or []:
            scan(s)
    for t, specs in sc.get("static") or []:
        for s in specs:
            scan(s)
    return out
