"""Helpers for E2 harnesses: rebinding the library's constant tables to symbols (S4), token round trip (S7),
a uniform E2 obligation runner and native (unpatched) replay of models."""
from __future__ import annotations

import contextlib
import json
import os
import subprocess
import sys
import time
from typing import Any, Callable, Dict, Iterable, List, Optional, Sequence, Tuple

import z3

from . import symreal as SR
from .common import CEX, DISCHARGED, INCONCLUSIVE, ROOT, Obligation

PY = os.path.join(ROOT, ".venv", "bin", "python")

SCALARS = ("PROTON_MASS", "ELECTRON_MASS", "NEUTRON_MASS")
_MISSING = object()


def _pept_modules():
    return [m for n, m in list(sys.modules.items()) if n.startswith("peptacular") and m is not None]


@contextlib.contextmanager
def patched(dict_updates: Sequence[Tuple[dict, Dict[Any, Any]]] = (), scalars: Optional[Dict[str, Any]] = None,
            attrs: Sequence[Tuple[Any, str, Any]] = ()):
    """Temporarily update module-level dict tables in place, rebind scalar constants in every peptacular module that
    holds them, and set arbitrary attributes; everything is restored on exit."""
    import peptacular  # noqa: F401  (make sure modules are loaded)
    saved_dicts = []
    saved_scalars = []
    saved_attrs = []
    try:
        for d, upd in dict_updates:
            saved_dicts.append((d, {k: d[k] for k in upd if k in d}, [k for k in upd if k not in d]))
            d.update(upd)
        for name, val in (scalars or {}).items():
            for m in _pept_modules():
                if hasattr(m, name):
                    saved_scalars.append((m, name, getattr(m, name)))
                    setattr(m, name, val)
        for obj, name, val in attrs:
            saved_attrs.append((obj, name, getattr(obj, name, _MISSING)))
            setattr(obj, name, val)
        yield
    finally:
        for obj, name, val in reversed(saved_attrs):
            if val is _MISSING:
                try:
                    delattr(obj, name)
                except AttributeError:
                    pass
            else:
                setattr(obj, name, val)
        for m, name, val in reversed(saved_scalars):
            setattr(m, name, val)
        for d, old, new_keys in reversed(saved_dicts):
            d.update(old)
            for k in new_keys:
                d.pop(k, None)


def token_convert_type_patches():
    """S7: convert_type maps a token back to its symbol (float(repr(x)) == x for binary64)."""
    import peptacular.util as U
    orig = U.convert_type

    def convert_type(val):
        s = SR.untoken(val) if SR.CTX is not None else None
        if s is not None:
            return s
        return orig(val)
    out = []
    for m in _pept_modules():
        if getattr(m, "convert_type", None) is orig:
            out.append((m, "convert_type", convert_type))
    return out


def run_e2(oid: str, clause: str, fn: Callable[[], Any], *, functions: Sequence[str] = (), bounds: str = "",
           max_paths: int = 20000, timeout_ms: int = 60000, budget_s: float = 300.0,
           replay: Optional[Callable[[Dict[str, float]], Tuple[bool, str, Optional[str]]]] = None,
           expect_paths_min: int = 1) -> Obligation:
    """Explore `fn` symbolically.  `replay(model)` must re-run the scenario on the *unpatched* library with the
    model's concrete values and return (violated?, detail, finding-site-or-None)."""
    ob = Obligation(oid=oid, clause=clause, engine="E2 symreal", functions=list(functions), bounds=bounds)
    t0 = time.time()
    cache: Dict[str, Any] = {}

    def _validate(model):
        if replay is None:
            return True
        key = json.dumps(model, sort_keys=True, default=repr)
        try:
            cache[key] = replay(model)
            return bool(cache[key][0])
        except Exception as e:
            cache[key] = (None, f"replay crashed: {type(e).__name__}: {e}", None)
            return True
    try:
        out = SR.explore(fn, max_paths=max_paths, timeout_ms=timeout_ms, budget_s=budget_s, validate=_validate)
    except SR.Unsupported as e:
        ob.detail = f"Unsupported: {e}"
        ob.wall_s = time.time() - t0
        return ob
    ob.wall_s = time.time() - t0
    ob.paths = out.paths
    ob.queries = out.queries
    ob.solver_s = out.solver_s
    ob.witness = out.witness or None
    if out.status == "holds":
        if out.paths < expect_paths_min or not out.witness:
            ob.status = INCONCLUSIVE
            ob.detail = "no feasible path reached the assertion (vacuity guard)"
        else:
            ob.status = DISCHARGED
            ob.detail = f"unsat on all {out.paths} paths"
    elif out.status == "cex":
        ob.status = CEX
        ob.cex = {"model": out.model}
        ob.detail = out.detail
        if replay is not None:
            key = json.dumps(out.model, sort_keys=True, default=repr)
            if key in cache:
                violated, detail, site = cache[key]
            else:
                try:
                    violated, detail, site = replay(out.model)
                except Exception as e:  # replay harness failure
                    violated, detail, site = None, f"replay crashed: {type(e).__name__}: {e}", None
            ob.replayed = bool(violated) if violated is not None else False
            ob.detail = detail
            ob.finding = site
            ob.cex["replay"] = detail
    else:
        ob.detail = out.detail
    return ob


_SERVER = None
_SERVER_SRC = r"""
import sys, json
sys.path.insert(0, %r)
_mains = {}
for line in sys.stdin:
    req = json.loads(line)
    try:
        key = req["key"]
        if key not in _mains:
            ns = {}
            exec(req["code"], ns)
            _mains[key] = ns["main"]
        out = {"ok": True, "result": _mains[key](req["payload"])}
    except BaseException as e:
        import traceback
        out = {"ok": False, "error": type(e).__name__ + ": " + str(e) + " | " + traceback.format_exc()[-600:]}
    sys.stdout.write("@@" + json.dumps(out, default=repr) + "\n")
    sys.stdout.flush()
""" % ROOT


def _server():
    """one long-lived interpreter per checking process that never patches anything: the unpatched library, real tables,
    real regex, binary64 floats.  (A fresh interpreter per replay costs ~0.45 s; thousands of replays per run.)"""
    global _SERVER
    if _SERVER is None or _SERVER.poll() is not None:
        _SERVER = subprocess.Popen([PY, "-W", "ignore", "-c", _SERVER_SRC], stdin=subprocess.PIPE, stdout=subprocess.PIPE,
                                   stderr=subprocess.DEVNULL, text=True, bufsize=1)
    return _SERVER


def native_call(code: str, payload: dict, timeout: int = 120) -> dict:
    """Run `code` (defines main(payload)->dict) against the unpatched library in the replay interpreter."""
    import hashlib
    global _SERVER
    srv = _server()
    req = {"key": hashlib.sha1(code.encode()).hexdigest(), "code": code, "payload": payload}
    try:
        srv.stdin.write(json.dumps(req, default=repr) + "\n")
        srv.stdin.flush()
        while True:
            line = srv.stdout.readline()
            if not line:
                raise RuntimeError("replay interpreter died")
            if line.startswith("@@"):
                out = json.loads(line[2:])
                break
    except Exception:
        try:
            srv.kill()
        finally:
            _SERVER = None
        raise
    if not out["ok"]:
        raise RuntimeError("native call failed: " + out["error"])
    return out["result"]
