"""S3r: the `regex` C extension cannot take CrossHair's symbolic strings; every call site reached by a harness goes through this
proxy, which realises (concretises, exhaustively explored by CrossHair path by path) the string arguments first."""
from __future__ import annotations


class RegexProxy:
    def __init__(self, real):
        self._real = real

    def _r(self, x):
        if isinstance(x, (str, bytes)) or type(x).__name__.endswith("Str"):
            import crosshair
            return crosshair.realize(x)
        return x

    def __getattr__(self, name):
        target = getattr(self._real, name)
        if callable(target) and name in ("finditer", "findall", "sub", "subn", "search", "match", "fullmatch", "split", "compile"):
            def wrapped(*a, **k):
                a2 = [self._r(v) for v in a]
                k2 = {kk: self._r(v) for kk, v in k.items()}
                try:
                    from crosshair.tracers import NoTracing
                except Exception:          # pragma: no cover
                    return target(*a2, **k2)
                # the regex package has Python-level caches (compiled patterns): run it untraced so that a cache hit does not
                # change the traced path (CrossHair would report NotDeterministic)
                with NoTracing():
                    res = target(*a2, **k2)
                    if name == "finditer":
                        res = list(res)
                return res
            return wrapped
        return target


def install(*modules) -> None:
    for m in modules:
        for attr in ("re", "regex"):
            r = getattr(m, attr, None)
            if r is not None and not isinstance(r, RegexProxy) and hasattr(r, "finditer"):
                setattr(m, attr, RegexProxy(r))
