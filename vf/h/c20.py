"""C20 harness (E1): modification dictionaries, copies, equality."""
from __future__ import annotations

from typing import Any, Dict, List, Optional, Tuple

from peptacular.proforma.proforma_parser import ProFormaAnnotation, create_annotation, parse
from peptacular.proforma.proforma_dataclasses import Mod, Interval
import peptacular.sequence.sequence_funcs as SF
from . import dumps as D
from .c11 import _build

LAST = None
SITE = None


def install_stubs() -> None:
    import peptacular.proforma.proforma_parser as PP
    PP.AMINO_ACIDS = "".join(sorted(PP.AMINO_ACIDS))


def _fail(**kw) -> bool:
    global LAST
    LAST = kw
    return False


def _mk(seq, npos, glob, nint, p0, p1, a0, b0, amb):
    pos = [p0, p1][:npos]
    return _build(seq, pos, glob, (a0, b0, amb) if nint else None)


def o_mod_dict_roundtrip(seq: str, npos: int, glob: bool, nint: int, amb: bool, p0: int = 0, p1: int = 0, a0: int = 0, b0: int = 1,
                          forms: bool = False, excl=()) -> bool:
    """add_mods(strip_mods(s), get_mods(s)) == s;  create_annotation(**a.dict()) equals a;  strip removes everything else nothing"""
    a = _mk(seq, npos, glob, nint, p0, p1, a0, b0, amb)
    s = a.serialize()
    before = D.dump(a)
    md = SF.get_mods(a)
    stripped = SF.strip_mods(a)
    if stripped != seq:
        return _fail(why="strip_mods", got=stripped)
    rebuilt = SF.add_mods(stripped, md)
    if rebuilt != s:
        return _fail(why="add_mods(strip_mods(s), get_mods(s)) != s", got=rebuilt, want=s)
    if forms:
        return _forms(a, seq, s)
    if D.dump(a) != before:
        return _fail(why="get_mods/strip_mods/add_mods changed the annotation")
    b = create_annotation(**a.dict())
    if D.norm_empty(D.dump(b)) != D.norm_empty(before):
        return _fail(why="create_annotation(**a.dict()) differs", diff=D.diff(D.norm_empty(D.dump(b)), D.norm_empty(before)))
    st = a.strip()
    want = (seq,) + (None,) * 10
    if D.norm_empty(D.dump(st)) != want:
        return _fail(why="strip() left something", got=D.dump(st))
    if D.dump(a) != before:
        return _fail(why="strip() changed its receiver")
    a2 = a.copy()
    a2.strip(inplace=True)
    if D.norm_empty(D.dump(a2)) != want:
        return _fail(why="strip(inplace) left something", got=D.dump(a2))
    return True


def _forms(a, seq: str, s: str) -> bool:
    """the same round trip through pop_mods, and with the peptide given as a ProForma string"""
    bare, md2 = SF.pop_mods(a)

    if bare != seq or SF.add_mods(bare, md2) != s:
        return _fail(why="add_mods(*pop_mods(a)) != s", got=(bare, SF.add_mods(bare, md2)), want=s)
    bare3, md3 = SF.pop_mods(s)
    if bare3 != seq or SF.add_mods(bare3, md3) != s or SF.add_mods(SF.strip_mods(s), SF.get_mods(s)) != s:
        return _fail(why="string input: add_mods(strip_mods(s), get_mods(s)) != s", want=s)
    return True


_MUTATORS = ["add_labile", "add_unknown", "add_nterm", "add_cterm", "add_internal", "add_interval", "charge", "adducts", "isotope", "static",
             "inplace_val", "inplace_internal_list", "interval_field", "sequence"]


def o_copy_independent(seq: str, npos: int, glob: bool, nint: int, amb: bool, which: int, p0: int = 0, p1: int = 0, a0: int = 0, b0: int = 1,
                       excl=()) -> bool:
    """copies are equal to and independent of their source: mutate the copy through every setter/adder, the source is unchanged"""
    a = _mk(seq, npos, glob, nint, p0, p1, a0, b0, amb)
    before = D.dump(a)
    c = a.copy()
    if D.dump(c) != before:
        return _fail(why="copy differs from its source")
    m = _MUTATORS[which]
    if m == "add_labile":
        c.add_labile_mods([Mod("zz", 1)], append=True)
    elif m == "add_unknown":
        c.add_unknown_mods("zz", append=True)
    elif m == "add_nterm":
        c.add_nterm_mods("zz", append=True)
    elif m == "add_cterm":
        c.add_cterm_mods("zz", append=True)
    elif m == "add_internal":
        c.add_internal_mod(p0 if npos else 0, "zz", append=True)
    elif m == "add_interval":
        c.add_intervals([(0, 1, True, ["zz"])], append=True)
    elif m == "charge":
        c.charge = 7
    elif m == "adducts":
        c.add_charge_adducts("+K+", append=True)
    elif m == "isotope":
        c.add_isotope_mods("15N", append=True)
    elif m == "static":
        c.add_static_mods("[zz]@K", append=True)
    elif m == "inplace_val":
        for lst in (c.labile_mods, c.nterm_mods, c.cterm_mods, c.unknown_mods, c.static_mods, c.isotope_mods, c.charge_adducts):
            for md in lst or []:
                md.val = "changed"
                md.mult = 9
    elif m == "inplace_internal_list":
        for k, lst in (c.internal_mods or {}).items():
            lst.append(Mod("zz", 1))
            lst[0].val = "changed"
    elif m == "interval_field":
        for iv in c.intervals or []:
            iv.start, iv.end, iv.ambiguous = 0, 0, not iv.ambiguous
            if iv.mods:
                iv.mods[0].val = "changed"
    elif m == "sequence":
        c.sequence = "W" + c.sequence
    if D.dump(a) != before:
        return _fail(why="mutating the copy changed the source", mutator=m, diff=D.diff(D.dump(a), before))
    return True


_PERT = ["none", "reorder", "value", "mult", "position", "interval_start", "interval_end", "interval_amb", "charge", "drop", "duplicate",
         "residue", "nterm_value", "labile_drop", "static_value", "isotope_value", "adduct_value", "interval_mod", "interval_reorder",
         "nterm_reorder", "interval_mod_mult",
         # multisets, not sets: [A, A, B] differs from [A, B, B] (same length, same set of distinct modifications)
         "extra_position",       # b carries everything a carries plus a modification on one more residue (a's positions are a subset)
         "multiset_internal", "multiset_mult", "multiset_nterm", "multiset_cterm", "multiset_labile", "multiset_unknown", "multiset_interval"]


def o_equality(seq: str, glob: bool, nint: int, pert: int, excl=()) -> bool:
    """== is reflexive, symmetric, insensitive to the order of modifications at one position, sensitive to everything else.
    The library's __eq__ goes through Counter/Mod.__hash__, which CrossHair cannot trace (see S9): it is evaluated untraced on the
    realised arguments; the perturbation selector is the symbolic variable (solver-driven enumeration)."""
    import crosshair
    from crosshair.tracers import NoTracing
    pert = crosshair.realize(pert)
    kind = _PERT[pert]
    L = len(seq)

    def tri(x: Mod, y: Mod, side: int):
        return [x, Mod(x.val, x.mult), y] if side == 0 else [x, y, Mod(y.val, y.mult)]

    def make(p, side: int = 0):
        kw: Dict[str, Any] = {}
        mods0 = [Mod("m0", 1), Mod("m1", 2)]
        if p == "multiset_internal":
            mods0 = tri(Mod("m0", 1), Mod("m1", 2), side)
        if p == "multiset_mult":
            mods0 = tri(Mod("m0", 2), Mod("m0", 3), side)
        if p == "reorder":
            mods0 = mods0[::-1]
        if p == "value":
            mods0[0] = Mod("mX", 1)
        if p == "mult":
            mods0[1] = Mod("m1", 3)
        if p == "drop":
            mods0 = mods0[:1]
        if p == "duplicate":
            mods0 = mods0 + [Mod("m1", 2)]
        kw["internal_mods"] = {(1 if (p == "position" and L > 1) else 0): mods0}
        if p == "extra_position" and L > 1:
            kw["internal_mods"][L - 1] = [Mod("m2", 1)]
        if L == 1 and p == "position":
            kw["internal_mods"] = {0: mods0[:1]}
        if nint:
            ivm = [Mod("iv" if p != "interval_mod" else "ivX", 1), Mod("iw", 2 if p != "interval_mod_mult" else 3)]
            if p == "interval_reorder":
                ivm = ivm[::-1]
            if p == "multiset_interval":
                ivm = tri(Mod("iv", 1), Mod("iw", 2), side)
            kw["intervals"] = [Interval(0 + (1 if p == "interval_start" and L > 1 else 0), L - (1 if p == "interval_end" and L > 1 else 0),
                                        p == "interval_amb", ivm)]
        if glob:
            ntm = [Mod("nt" if p != "nterm_value" else "ntX", 1), Mod("nu", 1)]
            if p == "multiset_nterm":
                ntm = tri(Mod("nt", 1), Mod("nu", 1), side)
            kw.update(nterm_mods=ntm[::-1] if p == "nterm_reorder" else ntm,
                      cterm_mods=[Mod("ct", 2)] if p != "multiset_cterm" else tri(Mod("ct", 2), Mod("cu", 1), side),
                      labile_mods=([Mod("lab", 1)] if p != "multiset_labile" else tri(Mod("lab", 1), Mod("lac", 1), side)) if p != "labile_drop" else None,
                      static_mods=[Mod("[st]@" + seq[0] if p != "static_value" else "[stX]@" + seq[0], 1)],
                      isotope_mods=[Mod("13C" if p != "isotope_value" else "15N", 1)],
                      unknown_mods=[Mod("unk", 1)] if p != "multiset_unknown" else tri(Mod("unk", 1), Mod("unl", 1), side),
                      charge=2 if p != "charge" else 3, charge_adducts=[Mod("+2Na+" if p != "adduct_value" else "+Na+", 1)])
        s = seq if p != "residue" else ("W" + seq[1:])
        return create_annotation(s, **kw)

    a = make("none") if not kind.startswith("multiset") else make(kind, 0)
    b = make(kind) if not kind.startswith("multiset") else make(kind, 1)
    # perturbations that need a feature which is absent leave the annotation unchanged
    effective = kind
    if kind in ("interval_start", "interval_end", "interval_amb", "interval_mod", "interval_reorder", "interval_mod_mult") and not nint:
        effective = "none"
    if kind in ("interval_start", "interval_end") and L == 1:
        effective = "none"
    if kind in ("charge", "nterm_value", "labile_drop", "static_value", "isotope_value", "adduct_value", "nterm_reorder") and not glob:
        effective = "none"
    if kind == "multiset_interval" and not nint:
        effective = "none"
    if kind in ("multiset_nterm", "multiset_cterm", "multiset_labile", "multiset_unknown") and not glob:
        effective = "none"
    if kind == "extra_position" and L == 1:
        effective = "none"
    if kind == "position" and L == 1:
        effective = "drop"
    if kind == "residue" and seq[0] == "W":
        effective = "none"
    want_equal = effective in ("none", "reorder", "interval_reorder", "nterm_reorder")
    with NoTracing():
        refl = (a == a) and (b == b)
        ab = (a == b)
        ba = (b == a)
        ne = (a != b)
        # an interval compared on its own follows the same rule as inside an annotation
        iv_ok = True
        if nint and a.intervals and b.intervals:
            iv_equal = (a.intervals[0] == b.intervals[0])
            iv_want = effective not in ("interval_start", "interval_end", "interval_amb", "interval_mod", "interval_mod_mult", "multiset_interval")
            iv_ok = (iv_equal == iv_want) and ((b.intervals[0] == a.intervals[0]) == iv_want)
    if not iv_ok:
        return _fail(why="Interval == gives the wrong answer", kind=kind, a=a.serialize(), b=b.serialize())
    if refl is not True:
        return _fail(why="== not reflexive")
    if ab != ba:
        return _fail(why="== not symmetric", kind=kind)
    if ab != want_equal:
        return _fail(why="== gives the wrong answer", kind=kind, got=ab, want=want_equal, a=a.serialize(), b=b.serialize())
    if ne == ab:
        return _fail(why="!= inconsistent with ==", kind=kind)
    return True
