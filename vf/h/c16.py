"""C16 harness (E1): subsequence search and coverage."""
from __future__ import annotations

from typing import Any, Dict, List

from peptacular.proforma.proforma_parser import create_annotation
from peptacular.proforma.proforma_dataclasses import Mod
import peptacular.sequence.sequence_funcs as SF

LAST = None
SITE = None


def install_stubs() -> None:
    import peptacular.proforma.proforma_parser as PP
    from . import restub
    restub.install(PP, SF)
    # S9': ProFormaAnnotation.__eq__ compares modification lists through Counter(...) == Counter(...), i.e. through Mod.__hash__,
    # which CrossHair cannot follow ("proxy return" / "proxy intolerance").  All strings of this harness are realised on entry and
    # every modification value is concrete, so the *real* are_mods_equal / are_intervals_equal run untraced on the real objects
    # (they used to be substituted by their multiset contract, which made the check blind to a change inside them).
    from crosshair.tracers import NoTracing
    import peptacular.proforma.proforma_dataclasses as PD

    def _untraced(real):
        def f(x, y):
            with NoTracing():
                return real(x, y)
        return f
    for name in ("are_mods_equal", "are_intervals_equal"):
        w = _untraced(getattr(PD, name))
        setattr(PP, name, w)
        setattr(PD, name, w)


def install_contract_stubs() -> None:
    """S9 (contract version) for harnesses whose intervals carry *symbolic* bounds (C07): the real helpers cannot run untraced there."""
    import peptacular.proforma.proforma_parser as PP
    from . import restub
    restub.install(PP, SF)
    # S9: ProFormaAnnotation.__eq__ compares modification lists through Counter(...) == Counter(...), i.e. through Mod.__hash__;
    # CrossHair replaces the result of a user-defined __hash__ by a fresh symbol ("proxy return") and then aborts the path
    # ("proxy intolerance").  The contract of are_mods_equal - equality as multisets of (value, multiplier) - is substituted here;
    # the real are_mods_equal/__hash__ are the subject of C20.
    def are_mods_equal(m1, m2):
        if m1 is None or m2 is None:
            return m1 is None and m2 is None
        if len(m1) != len(m2):
            return False
        rest = list(m2)
        for a in m1:
            hit = -1
            for i, b in enumerate(rest):
                if type(a.val) is type(b.val) and a.val == b.val and a.mult == b.mult:
                    hit = i
                    break
            if hit < 0:
                return False
            rest.pop(hit)
        return True
    PP.are_mods_equal = are_mods_equal

    def are_intervals_equal(i1, i2):
        if i1 is None or i2 is None:
            return i1 is None and i2 is None
        if len(i1) != len(i2):
            return False
        rest = list(i2)
        for a in i1:
            hit = -1
            for k, b in enumerate(rest):
                if a.start == b.start and a.end == b.end and a.ambiguous == b.ambiguous and are_mods_equal(a.mods, b.mods):
                    hit = k
                    break
            if hit < 0:
                return False
            rest.pop(hit)
        return True
    PP.are_intervals_equal = are_intervals_equal


def _real(x):
    """the substring search runs in the regex C extension: the strings are realisation points anyway; realising them on entry
    keeps every later string operation concrete (CrossHair still visits every value of the declared domain, path by path)"""
    import crosshair
    return crosshair.realize(x)


def _fail(**kw) -> bool:
    global LAST
    LAST = kw
    return False


def _ann(seq: str, pos: List[int], tag: str = "m", same: bool = False):
    """same=True: every modification has the same value 'm0' (the same modification several times at one position)"""
    im: Dict[int, List[Mod]] = {}
    for k, p in enumerate(pos):
        im.setdefault(p, []).append(Mod(f"{tag}{0 if same else k}", 1))
    return create_annotation(seq, internal_mods=im) if im else create_annotation(seq)


def _modmap(seq: str, pos: List[int], tag: str = "m", same: bool = False):
    out = [[] for _ in seq]
    for k, p in enumerate(pos):
        out[p].append(f"{tag}{0 if same else k}")
    return [sorted(x) for x in out]


def o_find(tseq: str, qseq: str, ntp: int, nqp: int, ignore_mods: bool, tp0: int = 0, tp1: int = 0, qp0: int = 0, same: bool = False,
           excl=()) -> bool:
    """offsets where the query's residues occur and its modifications equal the target's on that stretch (overlaps included);
    same=True: all modifications have one value, so a residue carrying it twice differs from one carrying it once (multisets)"""
    tseq, qseq = _real(tseq), _real(qseq)
    tpos, qpos = [tp0, tp1][:ntp], [qp0][:nqp]
    t = _ann(tseq, tpos, same=same)
    q = _ann(qseq, qpos, same=same)          # same tag: query mod k=0 is 'm0', equal to the target's first modification value
    got = SF.find_subsequence_indices(t, q, ignore_mods=ignore_mods)
    tm, qm = _modmap(tseq, tpos, same=same), _modmap(qseq, qpos, same=same)
    want = []
    for k in range(0, len(tseq) - len(qseq) + 1):
        if tseq[k:k + len(qseq)] == qseq and (ignore_mods or tm[k:k + len(qseq)] == qm):
            want.append(k)
    if list(got) != want:
        return _fail(why="find_subsequence_indices", target=t.serialize(), query=q.serialize(), ignore_mods=ignore_mods, got=list(got), want=want)
    sub = SF.is_subsequence(q, t, order=True) if not ignore_mods else None
    if sub is not None and sub != (len(want) > 0):
        return _fail(why="is_subsequence(order=True)", got=sub, want=len(want) > 0)
    # ProForma strings instead of annotation objects
    got_s = SF.find_subsequence_indices(t.serialize(), q.serialize(), ignore_mods=ignore_mods)
    if list(got_s) != want:
        return _fail(why="find_subsequence_indices on strings", target=t.serialize(), query=q.serialize(), ignore_mods=ignore_mods, got=list(got_s), want=want)
    # the annotation methods are entry points of their own (the module-level functions do not go through all of them)
    if not ignore_mods:
        m1 = q.is_subsequence(t)
        if m1 != (len(want) > 0):
            return _fail(why="annotation.is_subsequence", target=t.serialize(), query=q.serialize(), got=m1, want=len(want) > 0)
        m2 = list(q.find_indices(t))
        if m2 != want:
            return _fail(why="annotation.find_indices", target=t.serialize(), query=q.serialize(), got=m2, want=want)
    return True


def o_coverage(tseq: str, q1: str, q2: str, accumulate: bool, ignore_mods: bool, ntp: int, tp0: int = 0, qform: str = "plain", excl=()) -> bool:
    """qform: how the first listed subsequence is handed over - 'plain' residues, 'modstr' a ProForma *string* carrying the
    modification 'm0' on its first residue (the same value as the target's first modification), 'modann' the same as an
    annotation object.  An occurrence counts when the residues match and (unless ignore_mods) the modifications on the stretch
    equal the query's; it covers exactly len(residues) positions, however long the query's text is."""
    tseq, q1, q2 = _real(tseq), _real(q1), _real(q2)
    tpos = [tp0][:ntp]
    t = _ann(tseq, tpos)
    subs = []          # (what is passed, residues, modification map)
    if q1 != "":
        if qform == "plain":
            subs.append((q1, q1, _modmap(q1, [])))
        else:
            qa = _ann(q1, [0])
            subs.append((qa.serialize() if qform == "modstr" else qa, q1, _modmap(q1, [0])))
    if q2 != "":
        subs.append((q2, q2, _modmap(q2, [])))
    got = SF.coverage(t, [x[0] for x in subs], accumulate=accumulate, ignore_mods=ignore_mods)
    tm = _modmap(tseq, tpos)
    want = [0] * len(tseq)
    for _, q, qm in subs:
        for k in range(0, len(tseq) - len(q) + 1):
            if tseq[k:k + len(q)] == q and (ignore_mods or tm[k:k + len(q)] == qm):
                for i in range(k, k + len(q)):
                    want[i] = want[i] + 1 if accumulate else 1
    if list(got) != want:
        return _fail(why="coverage", target=t.serialize(), subs=[x[0] if isinstance(x[0], str) else x[0].serialize() for x in subs], qform=qform,
                     accumulate=accumulate, ignore_mods=ignore_mods, got=list(got), want=want)
    pc = SF.percent_coverage(t, [x[0] for x in subs], ignore_mods=ignore_mods)
    marked = sum(1 for w in want if w)
    if len(tseq) == 0:
        return pc == 0
    if not (0 <= pc <= 1) or abs(pc * len(tseq) - marked) > 1e-9:
        return _fail(why="percent_coverage", got=float(pc), marked=marked, n=len(tseq))
    return True


def o_unordered(tseq: str, qseq: str, ntp: int, nqp: int, tp0: int = 0, qp0: int = 0, excl=()) -> bool:
    """order-insensitive containment == multiset inclusion of modified residues"""
    tseq, qseq = _real(tseq), _real(qseq)
    tpos, qpos = [tp0][:ntp], [qp0][:nqp]
    t, q = _ann(tseq, tpos), _ann(qseq, qpos)
    got = SF.is_subsequence(q, t, order=False)
    tm, qm = _modmap(tseq, tpos), _modmap(qseq, qpos)
    tms = [(tseq[i], tuple(tm[i])) for i in range(len(tseq))]
    qms = [(qseq[i], tuple(qm[i])) for i in range(len(qseq))]
    want = all(qms.count(x) <= tms.count(x) for x in qms)
    if got != want:
        return _fail(why="is_subsequence(order=False)", target=t.serialize(), query=q.serialize(), got=got, want=want)
    return True
