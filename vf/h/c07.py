"""C07 harness (E1): digested peptides keep their modifications and their place."""
from __future__ import annotations

from typing import Any, Dict, List, Tuple

import peptacular.digestion as DG
import peptacular.sequence.sequence_funcs as SF
from peptacular.proforma.proforma_parser import ProFormaAnnotation, parse
from . import dumps as D
from .c11 import _build, _slice_expect

LAST = None
SITE = None
_SITES: Tuple[int, ...] = ()


def install_stubs() -> None:
    import peptacular.proforma.proforma_parser as PP
    from . import restub
    from .c16 import install_contract_stubs as s9
    PP.AMINO_ACIDS = "".join(sorted(PP.AMINO_ACIDS))
    restub.install(PP, SF)
    s9()
    # S3: the regex site finder is an environment returning the shape's site set
    DG.get_cleavage_sites = lambda sequence, enzyme_regex: iter(_SITES)


def _fail(**kw) -> bool:
    global LAST
    LAST = kw
    return False


def _check_peptide(a, seq, pos, glob, ivlist, s, e, ann, text) -> bool:
    want = D.norm_empty(_slice_expect(seq, pos, glob, ivlist, s, e))
    if ann is not None:
        g = D.norm_empty(D.dump(ann))
        if g != want:
            return _fail(why="returned annotation is not the protein's slice", span=(s, e), diff=D.diff(g, want))
    if text is not None:
        back = parse(text)
        g = D.norm_empty(D.dump(back))
        if g != want:
            return _fail(why="returned string does not re-parse to the slice", span=(s, e), text=text, diff=D.diff(g, want))
    return True


def o_return_types(seq: str, npos: int, glob: bool, nint: int, s: int, e: int, p0: int = 0, p1: int = 0, a0: int = 0, b0: int = 1, excl=()) -> bool:
    """_return_digested_sequences for all five return types on one symbolic span"""
    L = len(seq)
    pos = [p0, p1][:npos]
    a = _build(seq, pos, glob, (a0, b0, False) if nint else None)
    before = D.dump(a)
    ivlist = [(a0, b0, False, [("iv", 1)])] if nint else []
    span = (s, e, 0)
    r_span = list(DG._return_digested_sequences(a, [span], "span"))
    r_ann = list(DG._return_digested_sequences(a, [span], "annotation"))
    r_str = list(DG._return_digested_sequences(a, [span], "str"))
    r_ss = list(DG._return_digested_sequences(a, [span], "str-span"))
    r_as = list(DG._return_digested_sequences(a, [span], "annotation-span"))
    if r_span != [span] or len(r_ann) != 1 or len(r_str) != 1 or len(r_ss) != 1 or len(r_as) != 1:
        return _fail(why="wrong number of results")
    if r_ss[0][1] != span or r_as[0][1] != span:
        return _fail(why="span of the paired return types")
    if not _check_peptide(a, seq, pos, glob, ivlist, s, e, r_ann[0], r_str[0]):
        return False
    if not _check_peptide(a, seq, pos, glob, ivlist, s, e, r_as[0][0], r_ss[0][0]):
        return False
    if r_str[0] != r_ss[0][0]:
        return _fail(why="str and str-span disagree")
    if D.dump(a) != before:
        return _fail(why="digestion changed the protein annotation")
    # found again in the protein at offset s by the subsequence search
    if e > s:
        idx = SF.find_subsequence_indices(a, r_ann[0])
        if s not in idx:
            # a slice drops the protein's terminal modifications unless it contains the terminus; the search compares the
            # peptide with the protein's slice at each offset, so offset s must always match
            return _fail(why="peptide not found at its own offset by find_subsequence_indices", s=s, found=list(idx), peptide=r_ann[0].serialize())
        # ... and so is the peptide *string* (what a user gets from return_type='str'): it is re-parsed by the search
        idx2 = SF.find_subsequence_indices(a, r_str[0])
        if s not in idx2:
            return _fail(why="peptide string not found at its own offset by find_subsequence_indices", s=s, found=list(idx2), peptide=r_str[0])
        # the string re-parses to an annotation the library itself considers equal to the returned one
        from crosshair.tracers import NoTracing
        back = parse(r_str[0])
        if not (back == r_ann[0]):
            return _fail(why="parse(peptide string) != returned annotation (library ==)", peptide=r_str[0], got=D.dump(back), want=D.dump(r_ann[0]))
    return True


def o_digest(seq: str, sites: Tuple[int, ...], npos: int, glob: bool, rt: str, mc: int, semi: bool, p0: int = 0, p1: int = 0, excl=()) -> bool:
    """digest() end to end (site stub): every returned peptide is the slice of its span, spans and peptides correspond"""
    global _SITES
    _SITES = tuple(sites)
    pos = [p0, p1][:npos]
    a = _build(seq, pos, glob, None)
    # string return types are asked for with the protein given as a ProForma string (the usual call), the others with the object
    prot = a.serialize() if rt in ("str", "str-span") else a
    spans = list(DG.digest(prot, "R", mc, semi, return_type="span"))
    res = list(DG.digest(prot, "R", mc, semi, return_type=rt))
    if len(res) != len(spans):
        return _fail(why="return types disagree on the number of peptides", rt=rt, got=len(res), spans=len(spans))
    for sp, r in zip(spans, res):
        ann = text = None
        if rt == "annotation":
            ann = r
        elif rt == "str":
            text = r
        elif rt == "str-span":
            text = r[0]
            if r[1] != sp:
                return _fail(why="span order differs")
        elif rt == "annotation-span":
            ann = r[0]
            if r[1] != sp:
                return _fail(why="span order differs")
        if not _check_peptide(a, seq, pos, glob, [], sp[0], sp[1], ann, text):
            return False
    return True


def o_generators(seq: str, npos: int, glob: bool, which: str, mn: int, mx: int, p0: int = 0, p1: int = 0, excl=()) -> bool:
    """semi-/non-enzymatic sequence generators: annotation-span pairs are slices of their spans"""
    pos = [p0, p1][:npos]
    a = _build(seq, pos, glob, None)
    fn = {"left": DG.get_left_semi_enzymatic_sequences, "right": DG.get_right_semi_enzymatic_sequences,
          "semi": DG.get_semi_enzymatic_sequences, "non": DG.get_non_enzymatic_sequences}[which]
    res = list(fn(a, mn, mx, "annotation-span"))
    texts = list(fn(a.serialize() if which in ("left", "non") else a, mn, mx, "str"))      # string in / object in
    if len(res) != len(texts):
        return _fail(why="return types disagree")
    for (ann, sp), text in zip(res, texts):
        if not (0 <= sp[0] < sp[1] <= len(seq)):
            return _fail(why="span outside the protein", span=sp)
        if not _check_peptide(a, seq, pos, glob, [], sp[0], sp[1], ann, text):
            return False
    return True
