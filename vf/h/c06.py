"""C06 harness functions (E1).  Each returns True iff the property clause holds for the given inputs.

Oracle = the property text, written as set comprehension over *all* candidate spans of [0,n]:
  S      = sites ∪ {0,n}
  E      = {(s,e,k) : s<e in S, k = |S ∩ (s,e)|, k <= mc}
  semi   = E ∪ {proper sub-span of a member of E sharing its start or its end, value = sites strictly inside it}
  result = members with min_len <= e-s <= max_len
  all n+1 positions are sites -> every proper sub-span (length <= n-1) within the bounds, value 0.
The library result is a list; the clause also demands that it has no duplicates.
"""
from __future__ import annotations

from typing import List, Optional, Sequence, Tuple

import peptacular.spans as SP
import peptacular.digestion as DG

LAST = None
SITE = None

_SITES_BY_RULE = {}
_PROTEIN = ""


def install_stubs() -> None:
    # S3: the regex engine is an environment; get_cleavage_sites returns the shape's site set for rule names
    # 'R0','R1',... (re-based onto the sub-sequence when a slice of the protein is digested).
    _install_site_stub()


def _install_site_stub() -> None:
    def stub(sequence, enzyme_regex):
        seq = sequence if isinstance(sequence, str) else sequence.sequence
        off = _PROTEIN.find(seq) if seq else 0
        if off < 0:
            raise RuntimeError("stub: sub-sequence not found in protein")
        ln = len(seq)
        return (p - off for p in _SITES_BY_RULE[enzyme_regex] if off <= p <= off + ln and (off == 0 and ln == len(_PROTEIN) or off < p < off + ln))
    DG.get_cleavage_sites = stub


def _rule(i: int, sites) -> str:
    """Symbolic runs: the rule is the name 'R<i>' resolved by stub S3.  Native replays (VF_NOSTUB): a real regular expression
    that cuts the all-distinct-letters protein at exactly these positions (site p>0 = a look-behind for the letter at p-1, site 0 = a
    look-ahead for the first letter; all zero-width, so one rule can cut at 0 and 1), so the real regex site finder is exercised."""
    import os
    if not os.environ.get("VF_NOSTUB"):
        _SITES_BY_RULE[f"R{i}"] = tuple(sites)
        return f"R{i}"
    parts = []
    after = "".join(_PROTEIN[p - 1] for p in sorted(set(sites)) if p > 0)
    if after:
        parts.append(f"(?<=[{after}])")
    if 0 in sites and _PROTEIN:
        parts.append(f"(?={_PROTEIN[0]})")
    return "|".join(parts) if parts else "(?!)"


def _fail(**kw) -> bool:
    global LAST
    LAST = kw
    return False


def _inside(S: Sequence[int], s: int, e: int) -> int:
    return sum(1 for p in S if s < p < e)


def oracle_spans(n: int, sites: Sequence[int], mc, mn, mx, semi) -> List[Tuple[int, int, object]]:
    """[(s, e, expected_value_or_None)] for every candidate (s,e); None = must be absent. mc/mn/mx may be symbolic."""
    uniq = sorted(set(sites))
    out = []
    if len(uniq) == n + 1:
        for s in range(0, n + 1):
            for e in range(s + 1, n + 1):
                ln = e - s
                ok = (ln <= n - 1) and (mn <= ln) and (ln <= mx)
                out.append((s, e, 0, ok))
        return out
    S = sorted(set(uniq) | {0, n})
    for s in range(0, n + 1):
        for e in range(s + 1, n + 1):
            ln = e - s
            k = _inside(S, s, e)
            if s in S and e in S:
                member = k <= mc
            elif semi and (s in S or e in S):
                # proper sub-span sharing one end with a member of E: the smallest enclosing member has the same
                # number of inside sites, any larger one has more
                member = k <= mc
            else:
                member = False
            ok = member and (mn <= ln) and (ln <= mx)
            out.append((s, e, k, ok))
    return out


def _compare(got: List[Tuple[int, int, int]], exp, n: int) -> bool:
    # every returned span is a candidate with the right value, each candidate is present exactly once iff expected
    for g in got:
        if len(g) != 3:
            return _fail(why="not a triple", got=g)
        if not (0 <= g[0] < g[1] <= n):
            return _fail(why="span outside [0,n] or empty", got=g)
    for (s, e, k, ok) in exp:
        cnt = 0
        for g in got:
            if g[0] == s and g[1] == e:
                if g[2] != k:
                    return _fail(why="wrong missed-cleavage value", span=(s, e), got=int(g[2]), want=k)
                cnt += 1
        if ok:
            if cnt != 1:
                return _fail(why="expected span missing or duplicated", span=(s, e, k), count=cnt)
        else:
            if cnt != 0:
                return _fail(why="unexpected span", span=(s, e, k), count=cnt)
    return True


def o1_build_spans(n: int, sites: Tuple[int, ...], mn_none: bool, mx_none: bool,
                   mc: int, mn: int, mx: int, semi: bool, excl=()) -> bool:
    got = list(SP.build_spans(n, list(sites), mc, None if mn_none else mn, None if mx_none else mx, semi))
    exp = oracle_spans(n, sites, mc, 1 if mn_none else mn, n if mx_none else mx, semi)
    return _compare(got, exp, n)


def o2_single(kind: str, mn_none: bool, mx_none: bool, a: int, ln: int, v: int, mn: int, mx: int, excl=()) -> bool:
    """The three single-span builders on an arbitrary span (a, a+ln, v)."""
    b = a + ln
    span = (a, b, v)
    mn_a = None if mn_none else mn
    mx_a = None if mx_none else mx
    mn_e = 1 if mn_none else mn
    mx_e = ln if mx_none else mx
    if kind == "non":
        got = list(SP.build_non_enzymatic_spans(span, mn_a, mx_a))
        want = lambda s, e: (a <= s < e <= b) and (e - s <= ln - 1) and mn_e <= e - s <= mx_e
        val = 0
    elif kind == "left":
        got = list(SP.build_left_semi_spans(span, mn_a, mx_a))
        want = lambda s, e: s == a and (a < e < b) and mn_e <= e - s <= mx_e
        val = v
    else:
        got = list(SP.build_right_semi_spans(span, mn_a, mx_a))
        want = lambda s, e: e == b and (a < s < b) and mn_e <= e - s <= mx_e
        val = v
    for g in got:
        if not (a <= g[0] < g[1] <= b):
            return _fail(why="outside parent or empty", got=(int(g[0]), int(g[1])), parent=(int(a), int(b)))
        if g[2] != val:
            return _fail(why="value", got=int(g[2]))
    for ds in range(0, 8):
        for de in range(ds + 1, 8):
            if de > ln:
                continue
            s, e = a + ds, a + de
            cnt = sum(1 for g in got if g[0] == s and g[1] == e)
            if want(s, e):
                if cnt != 1:
                    return _fail(why="missing/duplicate", span=(int(s), int(e)), count=cnt)
            elif cnt != 0:
                return _fail(why="unexpected", span=(int(s), int(e)), count=cnt)
    return True


_LETTERS = "ACDEFGHIKLMNPQRSTVWY"


def o3_digest(n: int, rules: Tuple[Tuple[int, ...], ...], mn_none: bool, mx_none: bool,
              mc: int, mn: int, mx: int, semi: bool, complete: bool, sort_out: bool, via_config: bool, excl=()) -> bool:
    """digest()/digest_from_config() with return_type='span' on an unmodified protein; several rules = union."""
    global _PROTEIN
    _PROTEIN = _LETTERS[:n]
    names = [_rule(i, r) for i, r in enumerate(rules)]
    mn_a = None if mn_none else mn
    mx_a = None if mx_none else mx
    if via_config:
        cfg = DG.EnzymeConfig(regex=names if len(names) > 1 else names[0], missed_cleavages=mc, semi_enzymatic=semi,
                              complete_digestion=complete)
        got = list(DG.digest_from_config(_PROTEIN, cfg, min_len=mn_a, max_len=mx_a, return_type="span", sort_output=sort_out))
    else:
        got = list(DG.digest(_PROTEIN, names if len(names) > 1 else names[0], mc, semi, mn_a, mx_a, complete, "span", sort_out))
    union = sorted({p for r in rules for p in r})
    exp = oracle_spans(n, union, mc, 1 if mn_none else mn, n if mx_none else mx, semi)
    if not complete:
        # partial digestion adds the undigested sequence (0,n,0), whatever the bounds
        exp2 = []
        for (s, e, k, ok) in exp:
            if s == 0 and e == n:
                # the full span may be present as (0,n,0) [added] and as (0,n,k) [digest product, k = all sites]
                continue
            exp2.append((s, e, k, ok))
        full = [g for g in got if g[0] == 0 and g[1] == n]
        kfull = next((k for (s, e, k, ok) in exp if s == 0 and e == n), None)
        okfull = next((ok for (s, e, k, ok) in exp if s == 0 and e == n), False)
        want_full = {(0, n, 0)} if n >= 0 else set()
        vals = sorted(int(g[2]) for g in full)
        want_vals = [0]
        if okfull and kfull != 0:
            want_vals = sorted([0, kfull])
        if vals != want_vals:
            return _fail(why="undigested span handling", got=vals, want=want_vals)
        rest = [g for g in got if not (g[0] == 0 and g[1] == n)]
        if not _compare(rest, exp2, n):
            return False
    else:
        if not _compare(got, exp, n):
            return False
    if sort_out:
        for i in range(len(got) - 1):
            x, y = got[i], got[i + 1]
            if not ((x[0], x[1], x[2]) <= (y[0], y[1], y[2])):
                return _fail(why="not sorted", at=i)
    return True


def o4_sequential(n: int, sites1: Tuple[int, ...], sites2: Tuple[int, ...], mn_none: bool, mx_none: bool,
                  mn: int, mx: int, excl=()) -> bool:
    """sequential_digest with two complete zero-missed stages == digest with both rules (as sets of (s,e))."""
    global _PROTEIN
    _PROTEIN = _LETTERS[:n]
    r0, r1 = _rule(0, sites1), _rule(1, sites2)
    mn_a = None if mn_none else mn
    mx_a = None if mx_none else mx
    cfgs = [DG.EnzymeConfig(regex=r0, missed_cleavages=0, semi_enzymatic=False, complete_digestion=True),
            DG.EnzymeConfig(regex=r1, missed_cleavages=0, semi_enzymatic=False, complete_digestion=True)]
    seq = list(DG.sequential_digest(_PROTEIN, cfgs, min_len=mn_a, max_len=mx_a, return_type="span"))
    sim = list(DG.digest(_PROTEIN, [r0, r1], 0, False, mn_a, mx_a, True, "span", True))
    a = sorted((int(g[0]), int(g[1])) for g in seq)
    b = sorted((int(g[0]), int(g[1])) for g in sim)
    if a != b:
        return _fail(why="sequential != simultaneous", sequential=a, simultaneous=b)
    return True


def o4_sequential3(n: int, stages: Tuple[Tuple[int, ...], ...], mn_none: bool, mx_none: bool, mn: int, mx: int, excl=()) -> bool:
    """sequential_digest with any number of complete zero-missed stages == digest with all rules at once: the length bounds
    apply to the final peptides only (an over-long intermediate fragment is still cut by the later stages)."""
    global _PROTEIN
    _PROTEIN = _LETTERS[:n]
    names = [_rule(i, st) for i, st in enumerate(stages)]
    mn_a = None if mn_none else mn
    mx_a = None if mx_none else mx
    cfgs = [DG.EnzymeConfig(regex=r, missed_cleavages=0, semi_enzymatic=False, complete_digestion=True) for r in names]
    seq = list(DG.sequential_digest(_PROTEIN, cfgs, min_len=mn_a, max_len=mx_a, return_type="span"))
    sim = list(DG.digest(_PROTEIN, names, 0, False, mn_a, mx_a, True, "span", True))
    a = sorted((int(g[0]), int(g[1])) for g in seq)
    b = sorted((int(g[0]), int(g[1])) for g in sim)
    if a != b:
        return _fail(why="sequential != simultaneous", stages=[list(x) for x in stages], sequential=a, simultaneous=b)
    return True
