"""C11 harness (E1): reorder / cut operations move modifications with their residues."""
from __future__ import annotations

import random
from typing import Any, Dict, List, Optional, Tuple

from peptacular.proforma.proforma_parser import ProFormaAnnotation, create_annotation
from peptacular.proforma.proforma_dataclasses import Mod, Interval
from . import dumps as D

LAST = None
SITE = None


_PERM = None


def install_stubs() -> None:
    # S-RNG: random.shuffle applies an arbitrary permutation (its contract); the permutation is chosen by the harness's symbolic
    # selector, so the clauses are decided for *every* permutation instead of for sampled seeds.  random.seed is a no-op here.
    import peptacular.proforma.proforma_parser as PP
    import itertools as _it

    class _R:
        @staticmethod
        def seed(x=None):
            return None

        @staticmethod
        def shuffle(lst):
            perm = _PERM
            items = list(lst)
            if perm is not None:
                lst[:] = [items[i] for i in perm]

        class Random:                      # a private generator (random.Random(seed)) shuffles by the same arbitrary permutation
            def __init__(self, seed=None):
                pass

            def shuffle(self, lst):
                _R.shuffle(lst)
    PP.random = _R


def _perms(n):
    import itertools as _it
    return list(_it.permutations(range(n)))


def _fail(**kw) -> bool:
    global LAST
    LAST = kw
    return False


GLOB_KINDS = ("nterm", "cterm", "labile", "static", "isotope", "unknown", "charge", "adducts")


def _has(glob, kind: str) -> bool:
    # an adduct list is only written together with a charge ('/2[+2Na+]'): the single kind "adducts" brings the charge along
    return glob is True or glob == kind or (kind == "charge" and glob == "adducts")


def _build(seq: str, pos: List[int], glob, iv: Optional[Tuple[int, int, bool]], iv2=None):
    kw: Dict[str, Any] = {}
    if pos:
        im: Dict[int, List[Mod]] = {}
        for k, p in enumerate(pos):
            im.setdefault(p, []).append(Mod(f"m{k}", 1 + k))
        kw["internal_mods"] = im
    ivs = []
    if iv is not None:
        ivs.append(Interval(iv[0], iv[1], iv[2], [Mod("iv", 1)]))
    if iv2 is not None:
        ivs.append(Interval(iv2[0], iv2[1], iv2[2], None))
    if ivs:
        kw["intervals"] = ivs
    # glob: False = none of the global / terminal kinds, True = all of them, a kind's name = that kind alone (a peptide whose
    # only annotation is, say, a static rule or a charge takes the library's "unmodified" shortcuts unless every has_*() is asked)
    if _has(glob, "nterm"):
        kw["nterm_mods"] = [Mod("nt", 1)]
    if _has(glob, "cterm"):
        kw["cterm_mods"] = [Mod("ct", 2)]
    if _has(glob, "labile"):
        kw["labile_mods"] = [Mod("lab", 1)]
    if _has(glob, "static"):
        kw["static_mods"] = [Mod("[st]@" + seq[0], 1)]
    if _has(glob, "isotope"):
        kw["isotope_mods"] = [Mod("13C", 1)]
    if _has(glob, "unknown"):
        kw["unknown_mods"] = [Mod("unk", 1)]
    if _has(glob, "charge"):
        kw["charge"] = 2
    if _has(glob, "adducts"):
        kw["charge_adducts"] = [Mod("+2Na+", 1)]
    return create_annotation(seq, **kw)


def _residues(seq: str, pos: List[int]) -> List[Tuple[str, List[Tuple[str, int]]]]:
    """oracle view: one entry per residue = (letter, its own modifications in order)"""
    out = [(c, []) for c in seq]
    for k, p in enumerate(pos):
        out[p][1].append((f"m{k}", 1 + k))
    return out


def _expect(seq_res, glob: bool, ivs, seq0: str, swap: bool = False):
    seq = "".join(c for c, _ in seq_res)
    internal = [(i, ms) for i, (_, ms) in enumerate(seq_res) if ms]
    nt = [("nt", 1)] if _has(glob, "nterm") else None
    ct = [("ct", 2)] if _has(glob, "cterm") else None
    if swap:
        nt, ct = ct, nt
    return (seq, [("13C", 1)] if _has(glob, "isotope") else None, [("[st]@" + seq0[0], 1)] if _has(glob, "static") else None,
            [("lab", 1)] if _has(glob, "labile") else None, [("unk", 1)] if _has(glob, "unknown") else None, nt, ct, internal or None, ivs,
            2 if _has(glob, "charge") else None, [("+2Na+", 1)] if _has(glob, "adducts") else None)


def _cmp(got_ann, want, what: str) -> bool:
    g = D.norm_empty(D.dump(got_ann))
    w = D.norm_empty(want)
    if g != w:
        return _fail(why=what, diff=D.diff(g, w))
    return True


def o_shift(seq: str, npos: int, glob: bool, inplace: bool, n: int, p0: int = 0, p1: int = 0, excl=()) -> bool:
    L = len(seq)
    pos = [p0, p1][:npos]
    a = _build(seq, pos, glob, None)
    before = D.dump(a)
    if inplace:
        r = a.copy()
        if r.shift(n, inplace=True) is not None:
            return _fail(why="inplace returned something")
    else:
        r = a.shift(n)
        if D.dump(a) != before:
            return _fail(why="shift mutated its receiver")
    res = _residues(seq, pos)
    want_res = [res[(i + n) % L] for i in range(L)]
    if not _cmp(r, _expect(want_res, glob, None, seq), "shift"):
        return False
    # identities
    if not _cmp(r.shift(-n), _expect(res, glob, None, seq), "shift(k) then shift(-k)"):
        return False
    if not _cmp(a.shift(n + L), _expect(want_res, glob, None, seq), "shift(k+len) == shift(k)"):
        return False
    if not _cmp(a.shift(L), _expect(res, glob, None, seq), "shift(len) identity"):
        return False
    return True


def o_reverse(seq: str, npos: int, glob: bool, inplace: bool, nint: int, swap: bool, amb: bool,
              p0: int = 0, p1: int = 0, a0: int = 0, b0: int = 0, a1: int = 0, b1: int = 0, excl=()) -> bool:
    L = len(seq)
    pos = [p0, p1][:npos]
    iv = (a0, b0, amb) if nint >= 1 else None
    iv2 = (a1, b1, False) if nint >= 2 else None
    a = _build(seq, pos, glob, iv, iv2)
    before = D.dump(a)
    if inplace:
        r = a.copy()
        r.reverse(inplace=True, swap_terms=swap)
    else:
        r = a.reverse(swap_terms=swap)
        if D.dump(a) != before:
            return _fail(why="reverse mutated its receiver")
    res = _residues(seq, pos)
    want_res = res[::-1]
    ivs = None
    if nint:
        # an interval [a,b) covers residues a..b-1; after reversal the same residues are L-b .. L-a-1 -> [L-b, L-a)
        ivs = [(L - b0, L - a0, amb, [("iv", 1)])]
        if nint >= 2:
            ivs.append((L - b1, L - a1, False, None))
    if "C11-F1" in excl and nint:
        return True
    if not _cmp(r, _expect(want_res, glob, ivs, seq, swap), "reverse"):
        return False
    rr = r.reverse(swap_terms=swap)
    ivs0 = None
    if nint:
        ivs0 = [(a0, b0, amb, [("iv", 1)])] + ([(a1, b1, False, None)] if nint >= 2 else [])
    if not _cmp(rr, _expect(res, glob, ivs0, seq), "reverse twice"):
        return False
    return True


def _multiset(ann) -> List[Tuple[str, Any]]:
    d = D.dump(ann)
    seq = d[0]
    internal = dict(d[7] or [])
    return sorted((seq[i], tuple(internal.get(i, []))) for i in range(len(seq)))


def o_shuffle(seq: str, npos: int, glob: bool, inplace: bool, seed: int, sel: int = 0, p0: int = 0, p1: int = 0, excl=()) -> bool:
    global _PERM
    _PERM = _perms(len(seq))[sel]       # under the stub: the permutation random.shuffle applies (ignored natively)
    pos = [p0, p1][:npos]
    a = _build(seq, pos, glob, None)
    before = D.dump(a)
    state = random.getstate()
    if inplace:
        r = a.copy()
        r.shuffle(seed, inplace=True)
    else:
        r = a.shuffle(seed)
        if D.dump(a) != before:
            return _fail(why="shuffle mutated its receiver")
    random.setstate(state)
    g = D.dump(r)
    res = _residues(seq, pos)
    if _multiset(r) != sorted((c, tuple(ms)) for c, ms in res):
        return _fail(why="shuffle: multiset of modified residues changed", got=_multiset(r))
    want = _expect([(g[0][i], dict(g[7] or []).get(i, [])) for i in range(len(seq))], glob, None, seq)
    if not _cmp(r, want, "shuffle: global/terminal annotations"):
        return False
    # (CrossHair models the RNG as a nondeterministic source, so the clauses above hold for every outcome of the
    #  generator; determinism per seed is not expressible under that model and is left to C08's determinism clause)
    return True


def o_sort(seq: str, npos: int, glob: bool, inplace: bool, p0: int = 0, p1: int = 0, excl=()) -> bool:
    pos = [p0, p1][:npos]
    a = _build(seq, pos, glob, None)
    if inplace:
        r = a.copy()
        r.sort_residues(inplace=True)
    else:
        r = a.sort_residues()
    res = _residues(seq, pos)
    order = sorted(range(len(seq)), key=lambda i: seq[i])     # stable: equal letters keep their relative order
    want_res = [res[i] for i in order]
    g = D.dump(r)
    if g[0] != "".join(sorted(seq)):
        return _fail(why="not sorted", got=g[0])
    if _multiset(r) != sorted((c, tuple(ms)) for c, ms in res):
        return _fail(why="sort: multiset of modified residues changed", got=_multiset(r))
    return _cmp(r, _expect(want_res, glob, None, seq), "sort (stable)")


def _slice_expect(seq, pos, glob, ivlist, i, j):
    L = len(seq)
    res = _residues(seq, pos)[i:j]
    ivs = None
    if ivlist:
        ivs = [(a - i, b - i, amb, ms) for (a, b, amb, ms) in ivlist if i <= a and b <= j]
    want = list(_expect(res, glob, ivs, seq))
    if glob:
        if i > 0:
            want[5] = None
        if j < L:
            want[6] = None
    return tuple(want)


def o_slice(seq: str, npos: int, glob: bool, inplace: bool, nint: int, amb: bool, i: int, j: int,
            p0: int = 0, p1: int = 0, a0: int = 0, b0: int = 0, a1: int = 0, b1: int = 0, excl=()) -> bool:
    L = len(seq)
    pos = [p0, p1][:npos]
    iv = (a0, b0, amb) if nint >= 1 else None
    iv2 = (a1, b1, False) if nint >= 2 else None
    a = _build(seq, pos, glob, iv, iv2)
    before = D.dump(a)
    if inplace:
        r = a.copy()
        r.slice(i, j, inplace=True)
    else:
        r = a.slice(i, j)
        if D.dump(a) != before:
            return _fail(why="slice mutated its receiver")
    ivlist = []
    if nint >= 1:
        ivlist.append((a0, b0, amb, [("iv", 1)]))
    if nint >= 2:
        ivlist.append((a1, b1, False, None))
    want = _slice_expect(seq, pos, glob, ivlist, i, j)
    if not _cmp(r, want, "slice"):
        return False
    return True


def o_slice_compose(seq: str, npos: int, glob: bool, i: int, j: int, k: int, l: int, p0: int = 0, p1: int = 0, excl=()) -> bool:
    pos = [p0, p1][:npos]
    a = _build(seq, pos, glob, None)
    one = a.slice(i, j).slice(k, l)
    two = a.slice(i + k, i + l)
    g1, g2 = D.norm_empty(D.dump(one)), D.norm_empty(D.dump(two))
    if g1 != g2:
        return _fail(why="slice of a slice != slice of the summed offsets", diff=D.diff(g1, g2))
    return True


def o_split_join(seq: str, npos: int, term: bool, p0: int = 0, p1: int = 0, excl=()) -> bool:
    from peptacular.sequence.sequence_funcs import split as sf_split
    pos = [p0, p1][:npos]
    kw: Dict[str, Any] = {}
    a = _build(seq, pos, False, None)
    if term:
        a.nterm_mods = [Mod("nt", 1)]
        a.cterm_mods = [Mod("ct", 2)]
        a.labile_mods = [Mod("lab", 1)]
    text = a.serialize()
    parts = sf_split(a.copy())
    if len(parts) != len(seq):
        return _fail(why="split: number of pieces", got=len(parts))
    if "".join(parts) != text:
        return _fail(why="split then concatenate", got="".join(parts), want=text)
    pieces = list(a.copy().split())
    res = _residues(seq, pos)
    for idx, pc in enumerate(pieces):
        d = D.norm_empty(D.dump(pc))
        if d[0] != seq[idx] or (d[7] or []) != ([(0, res[idx][1])] if res[idx][1] else []):
            return _fail(why="split piece", idx=idx, got=d)
    return True


_WRAP_OPS = ("reverse", "shift", "shuffle", "sort", "span", "split", "count")


def o_wrappers(seq: str, npos: int, glob, op: str, as_str: bool, n: int = 0, swap: bool = False, i: int = 0, j: int = 1,
               p0: int = 0, p1: int = 0, excl=()) -> bool:
    """The module-level functions (peptacular.reverse / shift / shuffle / sort / span_to_sequence / split / count_residues) given the
    annotation object or its ProForma string return the serialization of what the corresponding annotation method returns (which the
    other obligations compare with the definition), and leave the object they were given unchanged."""
    import peptacular.sequence.sequence_funcs as SF
    from peptacular.proforma.proforma_parser import parse
    pos = [p0, p1][:npos]
    a = _build(seq, pos, glob, None)
    before = D.dump(a)
    arg = a.serialize() if as_str else a
    if op == "reverse":
        got, want = SF.reverse(arg, swap_terms=swap), a.reverse(swap_terms=swap)
    elif op == "shift":
        got, want = SF.shift(arg, n), a.shift(n)
    elif op == "shuffle":
        got, want = SF.shuffle(arg, seed=7), a.shuffle(7)
    elif op == "sort":
        got, want = SF.sort(arg), a.sort_residues()
    elif op == "span":
        got, want = SF.span_to_sequence(arg, (i, j, 0)), a.slice(i, j)
    elif op == "split":
        got, want = SF.split(arg), list(a.split())
    else:
        got, want = SF.count_residues(arg), a.count_residues()
    if D.dump(a) != before:
        return _fail(why="the module-level function changed the annotation it was given", op=op)
    if op == "count":
        if dict(got) != dict(want):
            return _fail(why="count_residues: function and method disagree", got=dict(got), want=dict(want))
        # and both are the multiset of the single-residue pieces
        pieces = [x.serialize() for x in a.split()]
        if dict(want) != {k: pieces.count(k) for k in pieces}:
            return _fail(why="count_residues is not the multiset of the split pieces", got=dict(want))
        return True
    if op == "split":
        if not isinstance(got, list) or len(got) != len(want):
            return _fail(why="split: number of pieces", got=repr(got))
        pairs = list(zip(got, want))
    else:
        pairs = [(got, want)]
    for g, w in pairs:
        if not isinstance(g, str):
            return _fail(why="module-level function did not return a string", op=op)
        if g != w.serialize():
            return _fail(why="module-level function differs from the annotation method", op=op, got=g, want=w.serialize())
        if len(w) > 0 and D.norm_empty(D.dump(parse(g))) != D.norm_empty(D.dump(w)):
            return _fail(why="module-level result does not parse back to the method's result", op=op, got=g)
    return True
