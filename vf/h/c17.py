"""C17 harness functions (E1, integer instantiation of the number-polymorphic matcher)."""
from __future__ import annotations

from typing import List

import peptacular.score as SC
from peptacular.fragmentation import Fragment

LAST = None
SITE = None


def install_stubs() -> None:
    pass


def _fail(**kw) -> bool:
    global LAST
    LAST = kw
    return False


def _window(f, sp, tol):
    return [j for j in range(len(sp)) if f - tol <= sp[j] <= f + tol]


def o1_match(mode: str, n1: int, n2: int, tol: int, excl=(), **v) -> bool:
    """match_spectra on sorted integer lists, 'th' tolerance, vs the quadratic brute-force matcher."""
    fr = [v[f"a{i}"] for i in range(n1)]
    sp = [v[f"b{i}"] for i in range(n2)]
    inten = [v[f"i{i}"] for i in range(n2)] if mode == "largest" else None
    got = SC.match_spectra(list(fr), list(sp), tol, "th", mode, list(inten) if inten is not None else None)
    if len(got) != n1:
        return _fail(why="length", got=len(got))
    for k in range(n1):
        win = _window(fr[k], sp, tol)
        g = got[k]
        if not win:
            if g is not None:
                return _fail(why="match reported where there is none", k=k)
            continue
        if g is None:
            return _fail(why="no match reported but peaks are in tolerance", k=k, window=win)
        if mode == "all":
            if list(g) != win:
                return _fail(why="all: wrong index set", k=k, got=[int(x) for x in g], want=win)
        elif mode == "closest":
            if g not in win:
                return _fail(why="closest: index outside window", k=k, got=int(g))
            d = abs(fr[k] - sp[g])
            for j in win:
                if abs(fr[k] - sp[j]) < d:
                    return _fail(why="closest: not minimal distance", k=k, got=int(g), better=j)
        else:
            if g not in win:
                return _fail(why="largest: index outside window", k=k, got=int(g))
            for j in win:
                if inten[j] > inten[g]:
                    return _fail(why="largest: not maximal intensity", k=k, got=int(g), better=j)
    return True


def o1_indices(n1: int, n2: int, tol: int, excl=(), **v) -> bool:
    """get_matched_indices: half-open index ranges == brute-force windows (windows of sorted lists are contiguous)."""
    fr = [v[f"a{i}"] for i in range(n1)]
    sp = [v[f"b{i}"] for i in range(n2)]
    got = SC.get_matched_indices(list(fr), list(sp), tol, "th")
    if len(got) != n1:
        return _fail(why="length")
    for k in range(n1):
        win = _window(fr[k], sp, tol)
        if not win:
            if got[k] is not None:
                return _fail(why="range reported for empty window", k=k)
        else:
            if got[k] is None or got[k][0] != win[0] or got[k][1] != win[-1] + 1:
                return _fail(why="wrong range", k=k, want=(win[0], win[-1] + 1))
    return True


def _frag(mz, idx):
    """fragment idx of the harness: the series alternate (b, y) and the charge changes every second fragment, so that matches of
    several labels ('+b', '+y', '++b', '++y') meet in one coverage dictionary"""
    ion = "b" if idx % 2 == 0 else "y"
    z = 1 + (idx // 2) % 2
    start, end = (0, idx + 1) if ion == "b" else (7 - (idx + 1), 7)
    return Fragment(charge=z, ion_type=ion, start=start, end=end, monoisotopic=True, isotope=0, loss=0.0,
                    parent_sequence="PEPTIDE", mass=mz, neutral_mass=mz, mz=mz, sequence="PEPTIDE"[start:end], unmod_sequence="PEPTIDE"[start:end], internal=False)


def o3_fragment_matches(mode: str, n1: int, n2: int, tol: int, excl=(), **v) -> bool:
    """get_fragment_matches on unsorted fragments/peaks: each fragment paired with exactly its window, order-insensitive;
    get_match_coverage counts each matched fragment's residues once per match; intensity fraction in [0,1]."""
    fmz = [v[f"a{i}"] for i in range(n1)]
    pmz = [v[f"b{i}"] for i in range(n2)]
    pin = [v[f"i{i}"] for i in range(n2)]
    frags = [_frag(fmz[i], i) for i in range(n1)]
    got = SC.get_fragment_matches(list(frags), list(pmz), list(pin), tol, "th", mode)
    # expected multiset of (fragment idx, peak mz, peak intensity)
    for i in range(n1):
        win = [j for j in range(n2) if fmz[i] - tol <= pmz[j] <= fmz[i] + tol]
        mine = [m for m in got if m.fragment is frags[i]]
        if mode == "all":
            if len(mine) != len(win):
                return _fail(why="all: number of matches for a fragment", frag=i, got=len(mine), want=len(win))
            # multiset equality of (mz, intensity)
            rest = list(win)
            for m in mine:
                hit = None
                for j in rest:
                    if pmz[j] == m.mz and pin[j] == m.intensity:
                        hit = j
                        break
                if hit is None:
                    return _fail(why="all: match is not a peak of the window", frag=i)
                rest.remove(hit)
        else:
            if (len(mine) != 0) != (len(win) != 0) or len(mine) > 1:
                return _fail(why="single-match mode: presence", frag=i, got=len(mine), window=len(win))
            if mine:
                m = mine[0]
                ok = False
                for j in win:
                    if pmz[j] == m.mz and pin[j] == m.intensity:
                        ok = True
                if not ok:
                    return _fail(why="match not in window", frag=i)
                if mode == "closest":
                    for j in win:
                        if abs(fmz[i] - pmz[j]) < abs(fmz[i] - m.mz):
                            return _fail(why="closest not minimal", frag=i)
                else:
                    for j in win:
                        if pin[j] > m.intensity:
                            return _fail(why="largest not maximal", frag=i)
    if len(got) != sum(1 for m in got if any(m.fragment is f for f in frags)):
        return _fail(why="foreign fragment in matches")
    cov = SC.get_match_coverage(got)
    exp = {}
    for m in got:
        row = exp.setdefault("+" * m.fragment.charge + m.fragment.ion_type, [0] * 7)
        for r in range(m.fragment.start, m.fragment.end):
            row[r] += 1
    if {k: [int(x) for x in row] for k, row in cov.items()} != exp:
        return _fail(why="coverage: each label's row counts the residues of that label's matched fragments, once per match", got=cov, want=exp)
    return True


def o3_intensity_fraction(n1: int, n2: int, tol: int, excl=(), **v) -> bool:
    fmz = [v[f"a{i}"] for i in range(n1)]
    pmz = [v[f"b{i}"] for i in range(n2)]
    pin = [v[f"i{i}"] for i in range(n2)]
    frags = [_frag(fmz[i], i) for i in range(n1)]
    got = SC.get_fragment_matches(list(frags), list(pmz), list(pin), tol, "th", "all")
    frac = SC.get_matched_intensity_percentage(got, list(pin))
    total = sum(pin)
    # distinct matched peaks = peaks lying in some fragment's window (peaks with equal m/z count once per distinct m/z
    # is the library's grouping; the property text says 'distinct matched peaks' -> use distinct m/z values here only when
    # all m/z are distinct, which the precondition guarantees)
    matched = 0
    for j in range(n2):
        if any(fmz[i] - tol <= pmz[j] <= fmz[i] + tol for i in range(n1)):
            matched += pin[j]
    if total == 0:
        return frac == 0
    if not (0 <= frac <= 1):
        return _fail(why="fraction outside [0,1]", got=float(frac))
    if frac * total != matched:
        return _fail(why="fraction != matched/total", got=float(frac), matched=int(matched), total=int(total))
    return True
