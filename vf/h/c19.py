"""C19 harness (E1): combinatorial expansions."""
from __future__ import annotations

import itertools
import math
from typing import Any, Dict, List

from peptacular.proforma.proforma_parser import parse, ProFormaAnnotation
import peptacular.sequence.combinatoric as CB
from . import dumps as D
from .c11 import _build, _residues, _expect

LAST = None
SITE = None


def install_stubs() -> None:
    import peptacular.proforma.proforma_parser as PP
    import peptacular.errors as ER
    PP.AMINO_ACIDS = "".join(sorted(PP.AMINO_ACIDS))


def _fail(**kw) -> bool:
    global LAST
    LAST = kw
    return False


_IT = {"permutations": lambda items, k: itertools.permutations(items, k), "combinations": lambda items, k: itertools.combinations(items, k),
       "combinations_with_replacement": lambda items, k: itertools.combinations_with_replacement(items, k),
       "product": lambda items, k: itertools.product(items, repeat=k)}


def _count(kind: str, n: int, k: int) -> int:
    if kind == "permutations":
        return math.factorial(n) // math.factorial(n - k) if k <= n else 0
    if kind == "combinations":
        return math.comb(n, k) if k <= n else 0
    if kind == "combinations_with_replacement":
        return math.comb(n + k - 1, k)
    return n ** k


def o_comb(kind: str, seq: str, npos: int, glob: bool, none_size: bool, size: int, p0: int = 0, p1: int = 0, nt: bool = True, ct: bool = True,
           extra: bool = False, excl=()) -> bool:
    import crosshair
    size = crosshair.realize(size)      # itertools (C) rejects a symbolic r: realisation point, every value of the range is visited
    pos = [p0, p1][:npos]
    a = _build(seq, pos, glob, None)
    if glob and not nt:
        a.nterm_mods = None
    if glob and not ct:
        a.cterm_mods = None
    n = len(seq)

    def _exp(w):
        d = list(_expect(w, glob, None, seq))
        if glob and not nt:
            d[5] = None
        if glob and not ct:
            d[6] = None
        return tuple(d)
    k = n if none_size else size
    # the expansions are queries on one peptide object: every call below is made on the same object `a`, which must still be
    # the peptide it was (a call that strips or reorders its receiver would poison all later expansions of that object)
    before = D.dump(a)
    got = getattr(a, kind)(None if none_size else size)
    res = _residues(seq, pos)
    want = [list(t) for t in _IT[kind](res, k)]
    if len(got) != _count(kind, n, k) or len(got) != len(want):
        return _fail(why="number of results", kind=kind, got=len(got), want=_count(kind, n, k))
    for g, w in zip(got, want):
        if not isinstance(g, ProFormaAnnotation):
            return _fail(why="result is not an annotation")
        gd = D.norm_empty(D.dump(g))
        wd = D.norm_empty(_exp(w))
        if gd != wd:
            return _fail(why="result differs from the standard enumeration over modified residues", kind=kind, diff=D.diff(gd, wd))
    # the string-level wrapper: same results, each parses back to the same annotation
    texts = getattr(CB, kind)(a, None if none_size else size)
    if len(texts) != len(want):
        return _fail(why="wrapper: number of results")
    for t, w in zip(texts, want):
        back = parse(t)
        if D.norm_empty(D.dump(back)) != D.norm_empty(_exp(w)):
            return _fail(why="wrapper result does not parse to the expected annotation", text=t)
    if D.dump(a) != before:
        return _fail(why="the expanded peptide object is no longer the peptide it was", kind=kind, diff=D.diff(D.dump(a), before))
    if none_size and getattr(CB, kind)(a.serialize(), None) != texts:
        # None means n, the number of residues - not the length of whatever text the caller handed over
        return _fail(why="wrapper: string input with size None gives other results than the annotation object", kind=kind)
    if not extra:
        return True
    # (separate, smaller conditions) string input; a second expansion of the same object, and one of another kind
    if getattr(CB, kind)(a.serialize(), None if none_size else size) != texts:
        return _fail(why="wrapper: string input gives other results than the annotation object", kind=kind)
    again = getattr(a, kind)(None if none_size else size)
    if [D.norm_empty(D.dump(g)) for g in again] != [D.norm_empty(D.dump(g)) for g in got]:
        return _fail(why="a second expansion of the same peptide object differs from the first", kind=kind)
    other = "product" if kind != "product" else "permutations"
    o1 = getattr(a, other)(1)
    wo = [list(t) for t in _IT[other](res, 1)]
    if [D.norm_empty(D.dump(g)) for g in o1] != [D.norm_empty(_exp(w)) for w in wo]:
        return _fail(why="an expansion of another kind on the same peptide object afterwards is wrong", first=kind, then=other)
    return True
