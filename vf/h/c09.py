"""C09 harness (E1): the parser is total."""
from __future__ import annotations

import peptacular.proforma.proforma_parser as PP
import peptacular.errors as ER
from peptacular.sequence.sequence_funcs import is_sequence_valid

LAST = None
SITE = None

_LETTERS = "ACDEFGHIKLMNPQRSTVWYBJOUXZ"


HANG_PROBES = {
    "o_short": [{"c0": a, "rest": b} for a in "[({<-/+^" for b in ["", "]", "[", "^", "/", "+", "-"]],
    "o_any": [{"s": x} for x in ["", "[", "(", "{", "<", "/", "+", "^"]],
    "o_deferred": [{"tail": x} for x in ["", "]", "[", "q"]],
}


def install_stubs() -> None:
    # S1: AMINO_ACIDS (a set; membership hashes, hashing realises) -> the same 26 letters as a str
    PP.AMINO_ACIDS = "".join(sorted(PP.AMINO_ACIDS))
    # S2: ProFormaFormatError keeps type and arguments, skips building the highlighted message

    def _init(self, msg, index, sequence, *args):
        self.msg = msg
        ValueError.__init__(self, "format error", *args)
    ER.ProFormaFormatError.__init__ = _init
    # S8 (only when a harness sets _APPROX): convert_type of text containing a non-ASCII character returns the text, an
    # arbitrary int or an arbitrary float (int()/float() accept Unicode digits; CrossHair cannot enumerate all of Unicode
    # through a C-level conversion).  ASCII-only text always goes through the real convert_type.
    import peptacular.proforma.proforma_dataclasses as DC
    real = DC.convert_type

    def convert_type(val):
        if _APPROX and isinstance(val, str) and any(ord(c) >= 128 for c in val):
            if _CHOICE == 0:
                return val
            if _CHOICE == 1:
                return _IVAL
            return 0.5 + _IVAL
        return real(val)
    DC.convert_type = convert_type
    # same stub for the parser's direct int() calls (charge, multiplier): shadow the builtin in the module namespace
    import builtins

    def _int(x, *a):
        if _APPROX and isinstance(x, str) and any(ord(c) >= 128 for c in x):
            if _CHOICE == 0:
                raise ValueError("invalid literal for int()")
            return _IVAL
        return builtins.int(x, *a)
    PP.int = _int


_APPROX = False
_CHOICE = 0
_IVAL = 0


def _fail(**kw) -> bool:
    global LAST
    LAST = kw
    return False


def _total(s: str) -> bool:
    try:
        a = PP.parse(s)
    except ValueError:
        return True
    out = a.serialize()
    if not isinstance(out, str):
        return _fail(why="serialize did not return a str", s=s)
    out2 = a.serialize(include_plus=True)
    if not isinstance(out2, str):
        return _fail(why="serialize(include_plus) did not return a str", s=s)
    return True


def o_short(c0: str, rest: str, excl=()) -> bool:
    return _total(c0 + rest)


def o_any(s: str, excl=()) -> bool:
    return _total(s)


def o_edit(template: str, pos: int, kind: str, ch: str, excl=()) -> bool:
    if kind == "replace":
        s = template[:pos] + ch + template[pos + 1:]
    elif kind == "insert":
        s = template[:pos] + ch + template[pos:]
    elif kind == "delete":
        s = template[:pos] + template[pos + 1:]
    else:
        s = template[:pos + 1] + template[pos] + template[pos + 1:]
    return _total(s)


def o_edit_nonascii(template: str, pos: int, kind: str, ch: str, choice: int, ival: int, excl=()) -> bool:
    global _APPROX, _CHOICE, _IVAL
    _APPROX, _CHOICE, _IVAL = True, choice, ival
    try:
        return o_edit(template, pos, kind, ch)
    finally:
        _APPROX = False


def o_suffix(template: str, tail: str, excl=()) -> bool:
    """a valid string followed by up to two more notation characters"""
    return _total(template + tail)


def o_valid(template: str, dummy: bool = False, excl=()) -> bool:
    """sanity for the templates themselves: they parse, serialize and are reported valid"""
    a = PP.parse(template)
    if not isinstance(a.serialize(), str):
        return False
    # is_sequence_valid() speaks about single peptides (it goes through sequence_to_annotation, which rejects multi-chain input)
    return is_sequence_valid(template) is True if isinstance(a, PP.ProFormaAnnotation) else True


def o_deferred(slot: str, tail: str, dummy: bool = False, form: str = "xq%s", excl=()) -> bool:
    """a syntactically valid string with an unresolvable modification parses; mass/comp raise a ValueError, never return.
    `form` places the (symbolic) tail inside a value of the corpus: bare unknown names, the empty value, empty or unknown '|'
    alternatives, tagged names, prefixed names (Obs:, U:) - none of them names anything in any vocabulary."""
    from peptacular.mass_calc import mass, comp
    val = form.replace("%s", tail)
    s = {"res": f"PE[{val}]P", "nterm": f"[{val}]-PEP", "cterm": f"PEP-[{val}]", "labile": "{" + val + "}PEP", "unknown": f"[{val}]?PEP",
         "interval": f"P(EP)[{val}]", "static": f"<[{val}]@P>PEP",
         # an unresolvable rule next to a resolvable one for the same target (either order), residue and terminal targets
         "static+ok": f"<[{val}]@P><[Acetyl]@P>PEP", "ok+static": f"<[Acetyl]@P><[{val}]@P>PEP",
         "staticN+ok": f"<[{val}]@N-Term><[Acetyl]@N-Term>PEP", "ok+staticC": f"<[Acetyl]@C-Term><[{val}]@C-Term>PEP",
         "static-multi": f"<[{val}]@P,E><[Acetyl]@E>PEP", "res+ok": f"PE[{val}][Acetyl]P", "ok+res": f"PE[Acetyl][{val}]P"}[slot]
    a = PP.parse(s)
    for fn in (mass, comp):
        try:
            r = fn(a.copy())
        except ValueError:
            continue
        return _fail(why=f"{fn.__name__} returned for an unresolvable modification", s=s, got=repr(r))
    return True
