"""C13 harness (E1): static and variable modification builders."""
from __future__ import annotations

import itertools
import re as _pyre
from typing import Any, Dict, List, Optional, Tuple

import peptacular.sequence.mod_builder as MB
from peptacular.proforma.proforma_parser import ProFormaAnnotation, create_annotation, parse
from peptacular.proforma.proforma_dataclasses import Mod
from . import dumps as D

LAST = None
SITE = None


def install_stubs() -> None:
    import peptacular.proforma.proforma_parser as PP
    import peptacular.util as U
    from . import restub
    from .c16 import install_stubs as s9
    PP.AMINO_ACIDS = "".join(sorted(PP.AMINO_ACIDS))
    restub.install(PP, U, MB)
    s9()


def _fail(**kw) -> bool:
    global LAST
    LAST = kw
    return False


def targets(seq: str, rule: str) -> List[int]:
    """residue indices a rule modifies: the first residue of every (overlapping) match; a zero-width match modifies the residue before it"""
    out = []
    for i in range(len(seq) + 1):
        m = _pyre.compile(rule).match(seq, i)
        if m:
            idx = i if m.end() > m.start() else i - 1
            if 0 <= idx < len(seq):
                out.append(idx)
    return out


def _base(seq: str, pre: List[bool], nt: bool, ct: bool):
    kw: Dict[str, Any] = {}
    im = {i: ([Mod("pre", 1)] if i % 2 else [Mod("pre", 1), Mod("pre2", 2)]) for i, f in enumerate(pre) if f}   # even positions: two stacked
    if im:
        kw["internal_mods"] = im
    if nt:
        kw["nterm_mods"] = [Mod("preN", 1)]
    if ct:
        kw["cterm_mods"] = [Mod("preC", 1)]
    return create_annotation(seq, **kw)


def _model(seq, pre, nt, ct):
    return {"res": [([("pre", 1)] if i % 2 else [("pre", 1), ("pre2", 2)]) if f else [] for i, f in enumerate(pre)],
            "nt": [("preN", 1)] if nt else [], "ct": [("preC", 1)] if ct else []}


def _dump_model(seq, m):
    internal = [(i, ms) for i, ms in enumerate(m["res"]) if ms]
    return D.norm_empty((seq, None, None, None, None, m["nt"] or None, m["ct"] or None, internal or None, None, None, None))


def _apply(mode, existing, new):
    if not existing:
        return list(new)
    if mode == "skip":
        return list(existing)
    if mode == "append":
        return list(existing) + list(new)
    return list(new)


MODES = ["skip", "append", "overwrite"]


def _term_dict(rules_):
    """terminal rules as the dictionary the library takes (a single unconditioned rule may also be given as a plain list)"""
    if not rules_:
        return None
    if len(rules_) == 1 and not rules_[0][0]:
        return list(rules_[0][1])
    return {r: list(ms) for r, ms in rules_}


def _term_model(mode, orig, rules_, seq, index):
    """a terminus follows the residues' rule: unmodified in the *input* -> every matching rule adds its modifications, whatever the
    mode and however many rules match; modified in the input -> skip keeps it, append adds each, overwrite leaves the last"""
    cur = list(orig)
    for r, ms in rules_:
        if r and index not in targets(seq, r):
            continue
        new = [(x, 1) for x in ms]
        if not orig:
            cur = cur + new
        elif mode == "append":
            cur = cur + new
        elif mode == "overwrite":
            cur = list(new)
    return cur


def o_static(seq: str, rules: List[Tuple[str, List[str]]], nrule: Optional[Tuple[str, List[str]]], crule: Optional[Tuple[str, List[str]]],
             mode_i: int, as_str: bool, nt: bool, ct: bool, nrule2=None, crule2=None, excl=(), **pre_flags) -> bool:
    pre = [bool(pre_flags.get(f"m{i}", False)) for i in range(len(seq))]
    mode = MODES[mode_i]
    a = _base(seq, pre, nt, ct)
    before = D.dump(a)
    internal = {r: list(ms) for r, ms in rules}
    nrules = [r for r in (nrule, nrule2) if r]
    crules = [r for r in (crule, crule2) if r]
    nterm, cterm = _term_dict(nrules), _term_dict(crules)
    got = MB.apply_static_mods(a, internal, nterm, cterm, mode=mode, return_type="str" if as_str else "annotation")
    if D.dump(a) != before:
        return _fail(why="apply_static_mods changed its input")
    g = parse(got) if as_str else got
    m = _model(seq, pre, nt, ct)
    orig = _model(seq, pre, nt, ct)
    for r, ms in rules:
        new = [(x, 1) for x in ms]
        for i in targets(seq, r):
            if not orig["res"][i]:
                m["res"][i] = m["res"][i] + new          # unmodified in the input: every matching rule adds its modifications
            elif mode == "append":
                m["res"][i] = m["res"][i] + new
            elif mode == "overwrite":
                m["res"][i] = list(new)                  # (several overwriting rules on one residue: the last one stays)
    m["nt"] = _term_model(mode, orig["nt"], nrules, seq, 0)
    m["ct"] = _term_model(mode, orig["ct"], crules, seq, len(seq) - 1)
    gd = D.norm_empty(D.dump(g))
    wd = _dump_model(seq, m)
    if gd != wd:
        return _fail(why="apply_static_mods result", mode=mode, diff=D.diff(gd, wd), got=g.serialize())
    if mode == "skip":
        twice = MB.apply_static_mods(g, internal, nterm, cterm, mode="skip", return_type="annotation")
        if D.norm_empty(D.dump(twice)) != gd:
            return _fail(why="applying twice in skip mode changes more", first=g.serialize(), second=twice.serialize())
    return True


def o_variable(seq: str, rules: List[Tuple[str, List[List[str]]]], nrule: Optional[List[List[str]]], mode_i: int, as_str: bool, nt: bool,
               max_mods: int, excl=(), **pre_flags) -> bool:
    pre = [bool(pre_flags.get(f"m{i}", False)) for i in range(len(seq))]
    mode = MODES[mode_i]
    a = _base(seq, pre, nt, False)
    before = D.dump(a)
    internal = {r: [list(g) for g in groups] for r, groups in rules}
    got = MB.apply_variable_mods(a, internal, max_mods, nterm_mods=[list(g) for g in nrule] if nrule else None, mode=mode,
                                 return_type="str" if as_str else "annotation")
    if D.dump(a) != before:
        return _fail(why="apply_variable_mods changed its input")
    forms = [parse(x) if as_str else x for x in got]
    dumps = [D.norm_empty(D.dump(f)) for f in forms]
    base_dump = _dump_model(seq, _model(seq, pre, nt, False))
    # weak clauses (all modes): residues kept, input form included, no form twice, changes confined to matched sites
    site_groups: Dict[int, List[List[Tuple[str, int]]]] = {}
    for r, groups in rules:
        for i in targets(seq, r):
            for g in groups:
                site_groups.setdefault(i, []).append([(x, 1) for x in g])
    for d in dumps:
        if d[0] != seq:
            return _fail(why="residues changed", got=d[0])
    if base_dump not in dumps:
        return _fail(why="the input form is missing from the result")
    for i, d in enumerate(dumps):
        if d in dumps[:i]:
            return _fail(why="a form is returned twice", form=forms[i].serialize())
    base_internal = dict(base_dump[7] or [])
    for d in dumps:
        for pos, ms in (d[7] or []):
            if ms != base_internal.get(pos) and pos not in site_groups:
                return _fail(why="a residue no rule matches was modified", pos=pos)
        for pos, ms in base_internal.items():
            if pos not in dict(d[7] or []):
                return _fail(why="a pre-existing modification disappeared", pos=pos)
    if mode != "skip":
        return True
    # exact enumeration (skip mode): every subset of at most max_mods eligible sites x one offered group per site, each once;
    # an N-terminal group is offered independently of max_mods when the N-terminus is unmodified
    eligible = [i for i in sorted(site_groups) if not pre[i]]
    want = []
    nt_opts: List[Optional[List[Tuple[str, int]]]] = [None]
    if nrule and not nt:
        nt_opts += [[(x, 1) for x in g] for g in nrule]
    for nto in nt_opts:
        for k in range(0, min(max_mods, len(eligible)) + 1):
            for subset in itertools.combinations(eligible, k):
                for choice in itertools.product(*[site_groups[i] for i in subset]):
                    m = _model(seq, pre, nt, False)
                    if nto is not None:
                        m["nt"] = list(nto)
                    for i, g in zip(subset, choice):
                        m["res"][i] = list(g)
                    want.append(_dump_model(seq, m))
    if sorted(map(repr, dumps)) != sorted(map(repr, want)):
        missing = [w for w in want if w not in dumps]
        extra = [d for d in dumps if d not in want]
        return _fail(why="variable forms differ from the exhaustive subset enumeration", missing=missing[:2], extra=extra[:2], n_got=len(dumps), n_want=len(want))
    return True
