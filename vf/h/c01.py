"""C01 harness (E1): ProForma text <-> annotation objects."""
from __future__ import annotations

from typing import Any, Dict, List, Optional, Tuple

import peptacular.proforma.proforma_parser as PP
import peptacular.errors as ER
from peptacular.proforma.proforma_parser import ProFormaAnnotation, MultiProFormaAnnotation, create_annotation, parse
from peptacular.proforma.proforma_dataclasses import Mod, Interval
from . import dumps as D

LAST = None
SITE = None
LETTERS = "ACDEFGHIKLMNPQRSTVWYBJOUXZ"

# every spelling the property text lists (values as the user writes them inside the brackets)
PALETTE = [
    "Oxidation", "UNIMOD:35", "U:35", "U:Oxidation", "MOD:00046", "M:O-phospho-L-serine", "PSI-MOD:00046", "XLMOD:02001", "X:DSS",
    "RESID:AA0037", "GNO:G59626AS", "+15.995", "-17.027", "15.995", "1", "-2", "+1.0", "U:+15.995", "M:-18.01",
    "Formula:C2H3NO", "Formula:[13C2]C-2H3", "Formula:C12H20O2[15N1]", "Glycan:HexNAc2Hex3", "Glycan:Hex", "Obs:+17.05", "INFO:any text here",
    "Oxidation#g1", "#g1", "+15.99#g1(0.5)", "Oxidation|INFO:x", "Phospho|+79.966", "U:Phospho#s1(0.9)|INFO:y",
    # two sibling bracket groups inside one modification value (ProForma spec 4.2.9 example; appended so the indices above stay)
    "Formula:[13C2][12C-2]H2N", "Formula:[13C6]H12O6[12C-4]",
]
STATIC = ["[Carbamidomethyl]@C", "[+57.021]@C,K", "[Oxidation][+1.5]@M", "[TMT6plex]@K,N-Term", "[Formula:C2]@C-Term"]
ISOTOPE = ["13C", "15N", "D", "T", "18O", "17O", "34S", "2H"]
ADDUCTS = ["+Na+", "+2Na+,+H+", "+Mg2+", "+H+,-e-"]


def install_stubs() -> None:
    PP.AMINO_ACIDS = "".join(sorted(PP.AMINO_ACIDS))

    def _init(self, msg, index, sequence, *args):
        self.msg = msg
        ValueError.__init__(self, "format error", *args)
    ER.ProFormaFormatError.__init__ = _init


def _fail(**kw) -> bool:
    global LAST
    LAST = kw
    return False


def build_chain(seq: str, spec: Dict[str, Any], p: int, a: int, b: int, amb: bool) -> ProFormaAnnotation:
    """spec: which slots are filled and with which palette entry / multiplier (all concrete = shape)."""
    kw: Dict[str, Any] = {}

    def M(entry):
        idx, mult = entry
        return Mod(PALETTE[idx], mult)

    for slot in ("labile", "unknown", "nterm", "cterm"):
        if spec.get(slot):
            kw[slot + "_mods"] = [M(e) for e in spec[slot]]
    if spec.get("res"):
        kw["internal_mods"] = {p: [M(e) for e in spec["res"]]}
    if spec.get("interval") is not None:
        kw["intervals"] = [Interval(a, b, amb, [M(e) for e in spec["interval"]] or None)]
    if spec.get("static") is not None:
        kw["static_mods"] = [Mod(STATIC[i], 1) for i in spec["static"]]
    if spec.get("isotope") is not None:
        kw["isotope_mods"] = [Mod(ISOTOPE[i], 1) for i in spec["isotope"]]
    if spec.get("charge") is not None:
        kw["charge"] = spec["charge"]
    if spec.get("adducts") is not None:
        kw["charge_adducts"] = [Mod(ADDUCTS[spec["adducts"]], 1)]
    return create_annotation(seq, **kw)


def expected_dump(seq: str, spec: Dict[str, Any], p: int, a: int, b: int, amb: bool) -> tuple:
    """the structure the notation denotes, written down independently of the library's constructors"""
    def cv(text):
        try:
            return int(text)
        except ValueError:
            try:
                return float(text)
            except ValueError:
                return text

    def ML(entries):
        return [(cv(PALETTE[i]), m) for i, m in entries]

    return (seq,
            [(ISOTOPE[i], 1) for i in spec["isotope"]] if spec.get("isotope") is not None else None,
            [(STATIC[i], 1) for i in spec["static"]] if spec.get("static") is not None else None,
            ML(spec["labile"]) if spec.get("labile") else None,
            ML(spec["unknown"]) if spec.get("unknown") else None,
            ML(spec["nterm"]) if spec.get("nterm") else None,
            ML(spec["cterm"]) if spec.get("cterm") else None,
            [(p, ML(spec["res"]))] if spec.get("res") else None,
            [(a, b, amb, ML(spec["interval"]) or None)] if spec.get("interval") is not None else None,
            spec.get("charge"),
            [(ADDUCTS[spec["adducts"]], 1)] if spec.get("adducts") is not None else None)


def o_roundtrip(L: int, spec: Dict[str, Any], seq: str, p: int, a: int, b: int, amb: bool, plus: bool, excl=()) -> bool:
    """structure -> text -> structure, and text -> structure -> text"""
    ann = build_chain(seq, spec, p, a, b, amb)
    want = D.norm_empty(expected_dump(seq, spec, p, a, b, amb))
    if D.norm_empty(D.dump(ann)) != want:
        return _fail(why="constructor did not build the intended structure", diff=D.diff(D.norm_empty(D.dump(ann)), want))
    text = ann.serialize(include_plus=plus)
    back = parse(text)
    if isinstance(back, MultiProFormaAnnotation):
        return _fail(why="single chain parsed as multi-chain", text=text)
    got = D.norm_empty(D.dump(back))
    if got != want:
        return _fail(why="serialize -> parse changed the annotation", text=text, diff=D.diff(got, want))
    text2 = back.serialize(include_plus=plus)
    if text2 != text:
        return _fail(why="re-serialization differs", text=text, text2=text2)
    # the other plus setting denotes the same annotation
    other = parse(ann.serialize(include_plus=not plus))
    if D.norm_empty(D.dump(other)) != want:
        return _fail(why="include_plus changes what is parsed back", text=ann.serialize(include_plus=not plus))
    return True


def o_equal(L: int, spec: Dict[str, Any], p: int, a: int, b: int, amb: bool, plus: bool, excl=()) -> bool:
    """"parses back to an *equal* annotation" by the library's own ==/!= (Counter / Mod.__hash__ / Mod.__lt__ inside, which
    CrossHair cannot trace: everything is realised first and the comparison runs untraced - a solver-driven enumeration of the
    positions and flags)."""
    import crosshair
    from crosshair.tracers import NoTracing
    p, a, b, amb, plus = (crosshair.realize(x) for x in (p, a, b, amb, plus))
    seq = "PEPTIDEK"[:L]
    with NoTracing():
        ann = build_chain(seq, spec, p, a, b, amb)
        text = ann.serialize(include_plus=plus)
        back = parse(text)
        try:
            eq = (back == ann, ann == back, back != ann, ann == ann.copy())
        except Exception as e:       # an equality test must answer, not raise
            return _fail(why="== raised", text=text, error=f"{type(e).__name__}: {e}")
    if eq != (True, True, False, True):
        return _fail(why="the annotation parsed back from its own serialization is not == to it", text=text, eq=eq)
    return True


def o_multi(L: int, specs: List[Dict[str, Any]], seqs: str, c0: bool, c1: bool, plus: bool, excl=()) -> bool:
    """2-3 chains joined by '+' (False) or '//' (True)"""
    n = len(specs)
    chains = []
    wants = []
    for k in range(n):
        s = seqs[k * L:(k + 1) * L]
        chains.append(build_chain(s, specs[k], 0, 0, L, False))
        wants.append(D.norm_empty(expected_dump(s, specs[k], 0, 0, L, False)))
    conns = [c0, c1][: n - 1]
    if "C01-F1" in excl and any(conns):
        return True
    multi = PP.create_multi_annotation(chains, conns)
    text = multi.serialize(include_plus=plus)
    try:
        back = parse(text)
    except ValueError as e:
        global SITE
        if any(conns) and (chr(92) + chr(92)) in text:
            SITE = "C01-F1"
        return _fail(why="serialized multi-chain text does not parse", text=text, error=str(e)[:80])
    if not isinstance(back, MultiProFormaAnnotation):
        return _fail(why="multi-chain text parsed as a single chain", text=text)
    if len(back.annotations) != n:
        return _fail(why="number of chains", text=text, got=len(back.annotations))
    if list(back.connections) != conns:
        return _fail(why="chain links", text=text, got=list(back.connections), want=conns)
    for k in range(n):
        g = D.norm_empty(D.dump(back.annotations[k]))
        if g != wants[k]:
            return _fail(why=f"chain {k} changed", text=text, diff=D.diff(g, wants[k]))
    if back.serialize(include_plus=plus) != text:
        return _fail(why="multi re-serialization differs", text=text, text2=back.serialize(include_plus=plus))
    return True


# ---------------------------------------------------------------------------------------------------------------
# Direction B: text written by an independent generator -> parse -> the structure the notation denotes

def _w(entries, lb="[", rb="]") -> str:
    out = ""
    for i, m in entries:
        out += lb + PALETTE[i] + rb + (f"^{m}" if m > 1 else "")
    return out


def write_text(seq: str, spec: Dict[str, Any], p: int, a: int, b: int, amb: bool) -> str:
    s = ""
    if spec.get("isotope") is not None:       # deliberately a different (legal) order than the library's serializer
        s += "".join(f"<{ISOTOPE[i]}>" for i in spec["isotope"])
    if spec.get("static") is not None:
        s += "".join(f"<{STATIC[i]}>" for i in spec["static"])
    if spec.get("labile"):
        s += _w(spec["labile"], "{", "}")
    if spec.get("unknown"):
        s += _w(spec["unknown"]) + "?"
    if spec.get("nterm"):
        s += _w(spec["nterm"]) + "-"
    body = ""
    for i in range(len(seq)):
        if spec.get("interval") is not None:
            if i == b:
                body += ")" + _w(spec["interval"])
            if i == a:
                body += "(" + ("?" if amb else "")
        body += seq[i]
        if spec.get("res") and i == p:
            body += _w(spec["res"])
    if spec.get("interval") is not None and b == len(seq):
        body += ")" + _w(spec["interval"])
    s += body
    if spec.get("cterm"):
        s += "-" + _w(spec["cterm"])
    if spec.get("charge") is not None:
        s += f"/{spec['charge']}"
        if spec.get("adducts") is not None:
            s += f"[{ADDUCTS[spec['adducts']]}]"
    return s


def o_text(L: int, spec: Dict[str, Any], seq: str, p: int, a: int, b: int, amb: bool, excl=()) -> bool:
    text = write_text(seq, spec, p, a, b, amb)
    back = parse(text)
    if isinstance(back, MultiProFormaAnnotation):
        return _fail(why="single chain parsed as multi-chain", text=text)
    got = D.norm_empty(D.dump(back))
    want = D.norm_empty(expected_dump(seq, spec, p, a, b, amb))
    if got != want:
        return _fail(why="parse does not yield what the notation denotes", text=text, diff=D.diff(got, want))
    return True


def o_multi_text(L: int, specs: List[Dict[str, Any]], seqs: str, c0: bool, c1: bool, excl=()) -> bool:
    """multi-chain text written by the independent generator ('+' or '//'): parse yields the chains and the links"""
    n = len(specs)
    conns = [c0, c1][: n - 1]
    text = ""
    wants = []
    for k in range(n):
        sq = seqs[k * L:(k + 1) * L]
        text += write_text(sq, specs[k], 0, 0, L, False)
        wants.append(D.norm_empty(expected_dump(sq, specs[k], 0, 0, L, False)))
        if k < n - 1:
            text += "//" if conns[k] else "+"
    back = parse(text)
    if not isinstance(back, MultiProFormaAnnotation):
        return _fail(why="multi-chain text parsed as a single chain", text=text)
    if len(back.annotations) != n or list(back.connections) != conns:
        return _fail(why="chains/links", text=text, got=(len(back.annotations), list(back.connections)), want=(n, conns))
    for k in range(n):
        g = D.norm_empty(D.dump(back.annotations[k]))
        if g != wants[k]:
            return _fail(why=f"chain {k}", text=text, diff=D.diff(g, wants[k]))
    return True
