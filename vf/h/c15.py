"""C15 harness (E1): chemical / glycan formula write-parse round trip and additivity."""
from __future__ import annotations

from typing import Any, Dict, List

import peptacular.chem.chem_util as CU
import peptacular.glycan as GL
import peptacular.mods.mod_db_setup as MDS

LAST = None
SITE = None

# palette chosen from the real element table to stress the tokenizer: prefixes of one another, particles, isotopes, D/T
PALETTE = ["C", "Ce", "Co", "O", "Os", "H", "He", "Hf", "N", "Na", "Ne", "S", "Se", "Si", "P", "Pt", "e", "p", "n", "D", "T", "13C", "2H", "15N", "18O", "Cl", "Br", "Fe"]
DECIMALS = [0.5, -0.25, 1.5, 2.125, -3.0625, 10.0001]
SEPS = ["", " ", "|"]
SACCH = ["Hex", "HexNAc", "Fuc", "Neu5Ac", "Pen", "HexN", "HexS", "HexP", "d-Hex", "a-Hex", "Sug", "Tri", "Tet", "Hep", "Oct", "Non", "Dec", "Kdn", "Neu", "Neu5Gc",
         "phosphate", "sulfate", "Me", "Acetyl", "HexNS", "HexNAc(S)", "en,a-Hex",
         # synonyms: written and parsed back under the name they were given
         "dHex", "NeuAc", "NeuGc", "Fucose", "Pent", "HexA", "aHex", "Phos", "Sulf"]


class _PatternProxy:
    """compiled `regex` patterns run in C: realise the subject string and run untraced"""

    def __init__(self, pat):
        self._p = pat

    def _call(self, name, s, *a, **k):
        import crosshair
        from crosshair.tracers import NoTracing
        s = crosshair.realize(s)
        with NoTracing():
            r = getattr(self._p, name)(s, *a, **k)
            if name == "finditer":
                r = list(r)
        return r

    def finditer(self, s, *a, **k):
        return self._call("finditer", s, *a, **k)

    def match(self, s, *a, **k):
        return self._call("match", s, *a, **k)

    def findall(self, s, *a, **k):
        return self._call("findall", s, *a, **k)


# native probes used only when a symbolic run never returns (see vf/ch.py: hang triage)
HANG_PROBES = {"o_split": [{"s": x} for x in ["]", "C]", "]C", "[]]", "C]C", "]]", "[C]]", "-]"]]}


def install_stubs() -> None:
    CU.CONDENSED_CHEM_FORMULA_PATTERN = _PatternProxy(CU.CONDENSED_CHEM_FORMULA_PATTERN)
    CU.ISOTOPE_COMPONENT_PATTERN = _PatternProxy(CU.ISOTOPE_COMPONENT_PATTERN)


def _fail(**kw) -> bool:
    global LAST
    LAST = kw
    return False


def _count(ci: int, dec: bool):
    return DECIMALS[ci % len(DECIMALS)] if dec else ci


def o_chem_roundtrip(n: int, sepi: int, hill: bool, dec: bool, e0: int, c0: int, e1: int = 0, c1: int = 0, e2: int = 0, c2: int = 0, excl=()) -> bool:
    """write_chem_formula -> parse_chem_formula returns the composition with zero counts dropped"""
    els = [e0, e1, e2][:n]
    cnts = [c0, c1, c2][:n]
    comp: Dict[str, Any] = {}
    for e, c in zip(els, cnts):
        comp[PALETTE[e]] = _count(c, dec)
    sep = SEPS[sepi]
    text = CU.write_chem_formula(comp, sep=sep, hill_order=hill)
    want = {k: v for k, v in comp.items() if v != 0}
    if sep != "" and not want:
        return True                      # separated forms are specified for non-empty compositions
    back = CU.parse_chem_formula(text, sep=sep)
    if back != want:
        return _fail(why="write -> parse changed the composition", comp=comp, sep=sep, hill=hill, text=text, back=back)
    return True


def o_chem_additive(n: int, e0: int, c0: int, e1: int, c1: int, f0: int, d0: int, excl=()) -> bool:
    """parse(f + g) == parse(f) + parse(g); repeated elements accumulate; isotopes stay distinct from their element"""
    f = CU.write_chem_formula({PALETTE[e0]: c0, PALETTE[e1]: c1} if n > 1 else {PALETTE[e0]: c0})
    g = CU.write_chem_formula({PALETTE[f0]: d0})
    a, b, ab = CU.parse_chem_formula(f), CU.parse_chem_formula(g), CU.parse_chem_formula(f + g)
    want = dict(a)
    for k, v in b.items():
        want[k] = want.get(k, 0) + v
    if ab != want:
        return _fail(why="parse(f+g) != parse(f)+parse(g)", f=f, g=g, got=ab, want=want)
    return True


def o_split(s: str, excl=()) -> bool:
    """_split_chem_formula (pure-Python bracket splitter) terminates; it rejects exactly the unbalanced texts with a ValueError and
    otherwise returns pieces that concatenate back to the input with every bracketed piece whole"""
    depth_ok = True
    depth = 0
    for ch in s:
        if ch == "[":
            if depth == 1:
                pass                      # '[' inside brackets is plain text for the splitter (it looks for the next ']')
            depth = 1
        elif ch == "]":
            if depth == 0:
                depth_ok = False
                break
            depth = 0
    if depth != 0:
        depth_ok = False
    try:
        parts = CU._split_chem_formula(s)
    except ValueError:
        if depth_ok:
            return _fail(why="balanced formula rejected", s=s)
        return True
    if not depth_ok:
        return _fail(why="unbalanced brackets accepted", s=s, parts=parts)
    if "".join(parts) != s:
        return _fail(why="pieces do not reproduce the formula", s=s, parts=parts)
    for p in parts:
        if p.startswith("[") != p.endswith("]"):
            return _fail(why="bracketed piece not whole", s=s, parts=parts)
    return True


def o_glycan_roundtrip(n: int, sepi: int, g0: int, c0: int, g1: int = 0, c1: int = 0, excl=()) -> bool:
    """write_glycan_formula -> parse_glycan_formula returns the counts it was written from (when the written form is unambiguous)"""
    names = [SACCH[g0], SACCH[g1]][:n]
    cnts = [c0, c1][:n]
    comp = {}
    for nm, c in zip(names, cnts):
        comp[nm] = c
    sep = SEPS[sepi]
    text = GL.write_glycan_formula(comp, sep=sep)
    # unambiguous: no monosaccharide name of the composition is a proper prefix/suffix-overlap of the concatenated text in another
    # way; decided by re-tokenising greedily with the longest-name-first table, which is what the parser documents
    try:
        back = GL.parse_glycan_formula(text, sep=sep)
    except ValueError as e:
        return _fail(why="written glycan formula rejected", comp=comp, text=text, err=str(e)[:80])
    if back != comp:
        if _ambiguous(text, comp):
            return True
        return _fail(why="glycan write -> parse changed the counts", comp=comp, text=text, back=back)
    return True


def _ambiguous(text: str, comp) -> bool:
    """the written form admits another tokenisation into known monosaccharide names (e.g. 'HexNAc' = 'Hex'+'NAc...' or a name
    followed by a count that continues another name)"""
    names = sorted(SACCH, key=len, reverse=True)
    for nm in comp:
        for other in names:
            if other != nm and (other.startswith(nm) or nm.startswith(other)):
                return True
    return any(ch.isdigit() and i + 1 < len(text) and text[i + 1].isalpha() is False for i, ch in enumerate(text)) and False
