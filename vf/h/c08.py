"""C08 harness (E1): one call from an arbitrary valid pre-state leaves every argument and the process-wide state unchanged,
shares nothing mutable with its result, and gives the same result when repeated."""
from __future__ import annotations

import random
from typing import Any, Callable, Dict, List, Tuple

import peptacular as pt
import peptacular.mass_calc as MC
import peptacular.fragmentation as FR
import peptacular.digestion as DG
import peptacular.isotope as ISO
import peptacular.score as SC
import peptacular.sequence.sequence_funcs as SF
import peptacular.sequence.combinatoric as CB
import peptacular.sequence.mod_builder as MB
import peptacular.chem.chem_calc as CCALC
import peptacular.chem.chem_util as CU
import peptacular.glycan as GL
from peptacular.proforma.proforma_parser import ProFormaAnnotation, MultiProFormaAnnotation, create_annotation
from peptacular.proforma.proforma_dataclasses import Mod, Interval
from peptacular.mods.mod_db_setup import UNIMOD_DB, PSI_MOD_DB, XLMOD_DB, MONOSACCHARIDES_DB
from . import dumps as D

LAST = None
SITE = None
FLAGS = ["labile", "unknown", "nterm", "cterm", "internal", "interval", "static", "isotope", "charge", "adducts"]


def install_stubs() -> None:
    import peptacular.proforma.proforma_parser as PP
    import peptacular.util as U
    from . import restub
    PP.AMINO_ACIDS = "".join(sorted(PP.AMINO_ACIDS))
    restub.install(PP, SF, U, FR)
    # S9': CrossHair cannot follow Mod.__hash__ / Interval.__hash__ (Counter-based equality).  In this harness every modification
    # value is concrete once the symbolic feature flags are decided, so the *real* are_mods_equal / are_intervals_equal run
    # untraced on the real objects - their side effects on the caller's lists (the subject of this property) stay observable,
    # which a substitution by contract (S9 as used for C16) would hide.
    from crosshair.tracers import NoTracing
    import peptacular.proforma.proforma_dataclasses as PD

    def _untraced(real):
        def f(a, b):
            with NoTracing():
                return real(a, b)
        return f
    for name in ("are_mods_equal", "are_intervals_equal"):
        wrapped = _untraced(getattr(PD, name))
        setattr(PP, name, wrapped)
        setattr(PD, name, wrapped)
    PP.random = _FakeRandom   # S-RNG2: CrossHair models the RNG as nondeterministic, which makes "same seed, same result" unprovable


class _FakeRandom:
    """Deterministic stand-in for the `random` module inside proforma_parser: a private generator (random.Random(seed)) is
    deterministic and self-contained; the module-level seed()/shuffle() touch `state`, which is part of the observed process-wide
    state, so a library that reseeds or consumes the module-level generator is still caught under CrossHair."""
    state = ["untouched"]

    class Random:
        def __init__(self, seed=None):
            self.k = seed if isinstance(seed, int) else 0

        def shuffle(self, lst):
            items = list(lst)
            r = self.k % len(items) if items else 0
            lst[:] = items[r:] + items[:r]

    @staticmethod
    def seed(x=None):
        _FakeRandom.state[0] = ("seeded", x)

    @staticmethod
    def shuffle(lst):
        _FakeRandom.state[0] = ("consumed",)
        lst.reverse()


def _fail(**kw) -> bool:
    global LAST
    LAST = kw
    return False


def build(seq: str, fl: Dict[str, bool]) -> ProFormaAnnotation:
    kw: Dict[str, Any] = {}
    n = len(seq)
    # every list holds two entries in *descending* order of Mod.__lt__ (str of the value): a callee that sorts, de-duplicates or
    # otherwise canonicalises a caller's list in place is then visible in the snapshot
    if fl.get("labile"):
        kw["labile_mods"] = [Mod("Phospho", 1), Mod("Hex", 1)]
    if fl.get("unknown"):
        kw["unknown_mods"] = [Mod("Oxidation", 1), Mod("Methyl", 1)]
    if fl.get("nterm"):
        kw["nterm_mods"] = [Mod("Acetyl", 1), Mod(1.5, 1)]
    if fl.get("cterm"):
        kw["cterm_mods"] = [Mod("Methyl", 1), Mod("Amidated", 1)]
    if fl.get("internal"):
        kw["internal_mods"] = {0: [Mod("Phospho", 1), Mod(3.25, 2)], n - 1: [Mod("Formula:C2H3", 1)]}
    if fl.get("interval"):
        kw["intervals"] = [Interval(0, n, False, [Mod("Phospho", 1), Mod("Acetyl", 1)])] if n < 3 else [Interval(1, n, True, [Mod("Phospho", 1), Mod("Acetyl", 1)])]
    if fl.get("static"):
        kw["static_mods"] = [Mod("[Carbamidomethyl]@C", 1), Mod("[+1.25]@N-Term", 1)]
    if fl.get("isotope"):
        kw["isotope_mods"] = [Mod("15N", 1), Mod("13C", 1)]
    if fl.get("charge"):
        kw["charge"] = 2
    if fl.get("adducts"):
        kw["charge_adducts"] = [Mod("+Na+,+H+", 1)]
    return create_annotation(seq, **kw)


def plain(x: Any, depth: int = 0) -> Any:
    """canonical, comparable snapshot"""
    if depth > 12:
        return "<deep>"
    if isinstance(x, ProFormaAnnotation):
        return ("A",) + D.dump(x)
    if isinstance(x, MultiProFormaAnnotation):
        return ("MA", [plain(a, depth + 1) for a in x.annotations], list(x.connections))
    if isinstance(x, Mod):
        return ("M", x.val, x.mult)
    if isinstance(x, Interval):
        return ("I", x.start, x.end, x.ambiguous, plain(x.mods, depth + 1))
    if isinstance(x, FR.Fragment):
        return ("F", x.charge, x.ion_type, x.start, x.end, x.isotope, x.loss, x.mass, x.mz, x.sequence, plain(x.parent_sequence, depth + 1))
    if isinstance(x, SC.FragmentMatch):
        return ("FM", plain(x.fragment, depth + 1), x.mz, x.intensity)
    if isinstance(x, DG.EnzymeConfig):
        return ("EC", plain(x.regex, depth + 1), x.missed_cleavages, x.semi_enzymatic, x.complete_digestion)
    if isinstance(x, dict):
        return ("D", [(plain(k, depth + 1), plain(v, depth + 1)) for k, v in x.items()])
    if isinstance(x, (list, tuple)):
        return ("L" if isinstance(x, list) else "T", [plain(v, depth + 1) for v in x])
    if isinstance(x, (set, frozenset)):
        return ("S", sorted(repr(plain(v, depth + 1)) for v in x))
    if hasattr(x, "__next__"):
        return "<iterator>"
    return x


def scramble(x: Any, depth: int = 0) -> None:
    """mutate every mutable thing reachable from a result (aliasing probe)"""
    if depth > 8:
        return
    if isinstance(x, ProFormaAnnotation):
        for lst in (x.labile_mods, x.unknown_mods, x.nterm_mods, x.cterm_mods, x.static_mods, x.isotope_mods, x.charge_adducts):
            if lst is not None:
                scramble(lst, depth + 1)
        if x.internal_mods is not None:
            scramble(x.internal_mods, depth + 1)
        if x.intervals is not None:
            scramble(x.intervals, depth + 1)
        x._charge = 99
        x._sequence = "W" + (x._sequence or "")
    elif isinstance(x, MultiProFormaAnnotation):
        scramble(x.annotations, depth + 1)
        scramble(x.connections, depth + 1)
    elif isinstance(x, Mod):
        x.val = "scrambled"
        x.mult = 77
    elif isinstance(x, Interval):
        x.start, x.end, x.ambiguous = 55, 56, not x.ambiguous
        if x.mods is not None:
            scramble(x.mods, depth + 1)
    # Fragment / FragmentMatch are frozen value objects; a match is meant to reference the caller's fragment
    elif isinstance(x, dict):
        for v in list(x.values()):
            scramble(v, depth + 1)
        x["__scrambled__"] = 1
        for k in list(x.keys())[:1]:
            if k != "__scrambled__":
                x.pop(k)
    elif isinstance(x, list):
        for v in list(x):
            scramble(v, depth + 1)
        x.append("scrambled")
        if len(x) > 1:
            x.pop(0)
    elif isinstance(x, tuple):
        for v in x:
            scramble(v, depth + 1)


def _world() -> tuple:
    return (len(UNIMOD_DB.entries) if hasattr(UNIMOD_DB, "entries") else 0, len(UNIMOD_DB.name_map), len(PSI_MOD_DB.name_map),
            len(XLMOD_DB.name_map), len(MONOSACCHARIDES_DB.name_map), len(UNIMOD_DB.id_map), random.getstate()[1][:4], random.getstate()[1][-1],
            _FakeRandom.state[0])


def _frags(a):
    return FR.fragment(a.copy(), ["b", "y"], [1])


# name -> (make_args, call).  make_args(a) returns the argument tuple (fresh mutable objects); call(*args) the result.
def _t(make, call):
    return (make, call)


def _matches(a):
    fr = _frags(strip_ambig(a))
    return SC.get_fragment_matches(fr, [100.0, 200.0, fr[0].mz if fr else 1.0], [1.0, 2.0, 3.0], 0.5, "th", "all")


def strip_ambig(a):
    b = a.copy()
    b.unknown_mods = None
    b.intervals = None
    return b


TARGETS: Dict[str, Tuple[Callable, Callable]] = {
    # mass_calc
    "mass": _t(lambda a: (a,), lambda a: MC.mass(a)),
    "mass_frag": _t(lambda a: (a,), lambda a: MC.mass(a, ion_type="y", charge=1, monoisotopic=False)),
    "mz": _t(lambda a: (a,), lambda a: MC.mz(a, charge=2)),
    "comp_mass": _t(lambda a: (a,), lambda a: MC.comp_mass(a)),
    "comp": _t(lambda a: (a,), lambda a: MC.comp(a, estimate_delta=True)),
    "comp_mass_overrides": _t(lambda a: (a, [Mod("13C", 1)]), lambda a, iso: MC.comp_mass(a, charge=3, charge_adducts="+Na+", isotope_mods=iso)),
    "comp_overrides": _t(lambda a: (a,), lambda a: MC.comp(a, estimate_delta=True, charge=2, isotope=1)),
    "mass_overrides": _t(lambda a: (a, [Mod("15N", 1)]), lambda a, iso: MC.mass(a, charge=2, isotope_mods=iso, charge_adducts="+H+")),
    "mz_overrides": _t(lambda a: (a, [Mod("D", 1)]), lambda a, iso: MC.mz(a, charge=1, isotope_mods=iso)),
    "condense_to_mass_mods": _t(lambda a: (a,), lambda a: MC.condense_to_mass_mods(a)),
    "mod_mass": _t(lambda a: ([Mod("Acetyl", 2), Mod(1.5, 1)],), lambda m: MC.mod_mass(m)),
    "chem_mass": _t(lambda a: ({"C": 2, "H": 3, "e": -1, "O": 0},), lambda d: CU.chem_mass(d)),
    "glycan_mass": _t(lambda a: ({"Hex": 2, "HexNAc": 1},), lambda d: MC.glycan_mass(d)),
    "chem_mz": _t(lambda a: ({"C": 2, "H": 3},), lambda d: MC.chem_mz(d, 2)),
    # fragmentation
    "fragment": _t(lambda a: (a, [("K", -1.0)], ["b", "y", "by", "i"], [1, 2], [0, 1]),
                   lambda a, L, it, ch, iso: FR.fragment(a, it, ch, isotopes=iso, water_loss=True, ammonia_loss=True, losses=L, max_losses=2)),
    "fragment_label": _t(lambda a: (a,), lambda a: FR.fragment(a, "y", 1, return_type="mz-label")),
    "Fragmenter": _t(lambda a: (a, [("E", -2.0)]), lambda a, L: FR.Fragmenter(a).fragment(["a", "x"], [1], losses=L)),
    # digestion
    "digest": _t(lambda a: (a, ["trypsin", "([DE])"]), lambda a, rx: list(DG.digest(a, rx, 1, True, return_type="annotation-span", complete_digestion=False))),
    "digest_str": _t(lambda a: (a,), lambda a: list(DG.digest(a, "non-specific", max_len=2))),
    "digest_from_config": _t(lambda a: (a, DG.EnzymeConfig(regex=["trypsin"], missed_cleavages=1)), lambda a, c: list(DG.digest_from_config(a, c, return_type="annotation"))),
    "sequential_digest": _t(lambda a: (a, [DG.EnzymeConfig(regex="trypsin"), DG.EnzymeConfig(regex=["([DE])"])]),
                            lambda a, cs: list(DG.sequential_digest(a, cs, return_type="str-span"))),
    "left_semi": _t(lambda a: (a,), lambda a: list(DG.get_left_semi_enzymatic_sequences(a, return_type="annotation"))),
    "right_semi": _t(lambda a: (a,), lambda a: list(DG.get_right_semi_enzymatic_sequences(a))),
    "semi": _t(lambda a: (a,), lambda a: list(DG.get_semi_enzymatic_sequences(a))),
    "non_enzymatic": _t(lambda a: (a,), lambda a: list(DG.get_non_enzymatic_sequences(a, return_type="annotation-span"))),
    "cleavage_sites": _t(lambda a: (a,), lambda a: list(DG.get_cleavage_sites(a, "trypsin"))),
    # sequence_funcs
    "get_mods": _t(lambda a: (a,), lambda a: SF.get_mods(a)),
    "add_mods": _t(lambda a: (a.serialize(), {"nterm": ["Acetyl", 2.5], 0: "Phospho", "labile": [Mod("Hex", 1)], "intervals": [(0, 1, False, ["Methyl"])], "charge": 3}),
                   lambda a, d: SF.add_mods(a, d)),
    "sf_condense_static_mods": _t(lambda a: (a,), lambda a: SF.condense_static_mods(a)),
    "pop_mods": _t(lambda a: (a,), lambda a: SF.pop_mods(a)),
    "strip_mods": _t(lambda a: (a,), lambda a: SF.strip_mods(a)),
    "sf_reverse": _t(lambda a: (a,), lambda a: SF.reverse(a, swap_terms=True)),
    "sf_shuffle": _t(lambda a: (a,), lambda a: SF.shuffle(a, seed=5)),
    "sf_shift": _t(lambda a: (a,), lambda a: SF.shift(a, 1)),
    "span_to_sequence": _t(lambda a: (a, (0, 1, 0)), lambda a, s: SF.span_to_sequence(a, s)),
    "sf_split": _t(lambda a: (a,), lambda a: SF.split(a)),
    "sf_count_residues": _t(lambda a: (a,), lambda a: SF.count_residues(a)),
    "is_subsequence": _t(lambda a: (a.slice(0, 1), a), lambda q, t: SF.is_subsequence(q, t)),
    "is_subsequence_unordered": _t(lambda a: (a.slice(0, 1), a), lambda q, t: SF.is_subsequence(q, t, order=False)),
    # the same queries with a query that equals the whole target: the comparison then runs through every field, intervals included
    "is_subsequence/self": _t(lambda a: (a.copy(), a), lambda q, t: SF.is_subsequence(q, t)),
    "find_subsequence_indices/self": _t(lambda a: (a, a.copy()), lambda t, q: SF.find_subsequence_indices(t, q)),
    "coverage/self": _t(lambda a: (a, [a.copy()]), lambda t, qs: SF.coverage(t, qs, accumulate=True)),
    "sf_sort": _t(lambda a: (a,), lambda a: SF.sort(a)),
    "find_subsequence_indices": _t(lambda a: (a, a.slice(0, 1)), lambda t, q: SF.find_subsequence_indices(t, q)),
    "coverage": _t(lambda a: (a, [a.slice(0, 1), a.strip().slice(0, 1)]), lambda t, qs: SF.coverage(t, qs, accumulate=True, ignore_mods=True)),
    "percent_coverage": _t(lambda a: (a, [a.slice(0, 1)]), lambda t, qs: SF.percent_coverage(t, qs)),
    "sequence_length": _t(lambda a: (a,), lambda a: SF.sequence_length(a)),
    "is_ambiguous": _t(lambda a: (a,), lambda a: SF.is_ambiguous(a)),
    "is_modified": _t(lambda a: (a,), lambda a: SF.is_modified(a)),
    "count_aa": _t(lambda a: (a,), lambda a: SF.count_aa(a)),
    "is_sequence_valid": _t(lambda a: (a,), lambda a: SF.is_sequence_valid(a)),
    # combinatorics
    "permutations": _t(lambda a: (a,), lambda a: CB.permutations(a, 2)),
    "product": _t(lambda a: (a,), lambda a: CB.product(a, 2)),
    "combinations": _t(lambda a: (a,), lambda a: CB.combinations(a, 2)),
    "combinations_with_replacement": _t(lambda a: (a,), lambda a: CB.combinations_with_replacement(a, 2)),
    "a.permutations": _t(lambda a: (a,), lambda a: a.permutations(1)),
    # builders
    "apply_static_mods": _t(lambda a: (a, {"K": ["Acetyl"], "[ST]": [Mod(1.5, 1)]}, ["Methyl"], {"K": "Amidated"}),
                            lambda a, im, nt, ct: MB.apply_static_mods(a, im, nt, ct, mode="append", return_type="annotation")),
    "apply_variable_mods": _t(lambda a: (a, {"K": [["Acetyl"], [Mod(1.5, 1)]], "E": [["Methyl"]]}, ["Formyl"]),
                              lambda a, im, nt: MB.apply_variable_mods(a, im, 2, nterm_mods=nt, mode="skip", return_type="annotation")),
    # the same builders given ready-made Mod objects everywhere: input_convert.fix_list_of_mods / fix_dict_of_mods return such lists
    # as they are, so every copy the callee omits shows up as shared state between the caller's list and the returned peptide
    **{f"apply_static_mods/objs/{mode}": _t(
        lambda a: (a, {"K": [Mod("Acetyl", 1)], "[ST]": [Mod(1.5, 1)], "E": [Mod("Methyl", 2)]}, [Mod("Methyl", 1)], {"K": [Mod("Amidated", 1)], "C": [Mod(2.5, 1)]}),
        (lambda mode: lambda a, im, nt, ct: MB.apply_static_mods(a, im, nt, ct, mode=mode, return_type="annotation"))(mode))
       for mode in ("append", "overwrite", "skip")},
    "apply_static_mods/objs/termdict": _t(
        lambda a: (a, None, {"K": [Mod("Methyl", 1)]}, [Mod("Amidated", 1)]),
        lambda a, im, nt, ct: MB.apply_static_mods(a, im, nt, ct, mode="append", return_type="annotation")),
    "apply_variable_mods/objs/skip": _t(
        lambda a: (a, {"K": [[Mod("Acetyl", 1)]], "E": [[Mod(1.5, 1)]]}, [[Mod("Formyl", 1)]], {"C": [[Mod("Amidated", 1)]]}),
        lambda a, im, nt, ct: MB.apply_variable_mods(a, im, 1, nterm_mods=nt, cterm_mods=ct, mode="skip", return_type="annotation")),
    "apply_variable_mods/objs/append": _t(
        lambda a: (a, {"E": [[Mod(1.5, 1)]]}, [[Mod("Formyl", 1)]]),
        lambda a, im, nt: MB.apply_variable_mods(a, im, 1, nterm_mods=nt, mode="append", return_type="annotation")),
    "add_mods/objs": _t(lambda a: (a.serialize(), {"nterm": [Mod("Acetyl", 1)], "cterm": [Mod("Amidated", 1)], 0: [Mod("Phospho", 1)], "labile": [Mod("Hex", 1)],
                                                  "unknown": [Mod("Oxidation", 1)], "static": [Mod("[1.5]@K", 1)], "isotope": [Mod("13C", 1)],
                                                  "intervals": [Interval(0, 1, False, [Mod("Methyl", 1)])], "charge_adducts": [Mod("+Na+", 1)], "charge": 3}),
                        lambda a, d: SF.add_mods(a, d)),
    "add_mods/objs/annotation": _t(lambda a: (a, {"nterm": [Mod("Acetyl", 1)], "cterm": [Mod("Amidated", 1)], 1: [Mod("Phospho", 1)], "labile": [Mod("Hex", 1)],
                                                 "unknown": [Mod("Oxidation", 1)], "intervals": [Interval(0, 1, False, [Mod("Methyl", 1)])]}),
                                   lambda a, d: SF.add_mods(a, d, append=False)),
    "create_annotation/objs": _t(lambda a: ({"nterm_mods": [Mod("Acetyl", 1)], "cterm_mods": [Mod("Amidated", 1)], "labile_mods": [Mod("Hex", 1)],
                                             "unknown_mods": [Mod("Oxidation", 1)], "static_mods": [Mod("[1.5]@K", 1)], "isotope_mods": [Mod("13C", 1)],
                                             "charge_adducts": [Mod("+Na+", 1)], "internal_mods": {0: [Mod("Phospho", 1)]},
                                             "intervals": [Interval(0, 1, True, [Mod("Methyl", 1)])]},),
                                 lambda kw: create_annotation("PEK", **kw)),
    # annotation methods
    "a.copy": _t(lambda a: (a,), lambda a: a.copy()),
    "a.dict": _t(lambda a: (a,), lambda a: a.dict()),
    "a.mod_dict": _t(lambda a: (a,), lambda a: a.mod_dict()),
    "a.condense_static_mods": _t(lambda a: (a,), lambda a: a.condense_static_mods()),
    "a.slice": _t(lambda a: (a,), lambda a: a.slice(0, len(a))),
    "a.slice_unmod": _t(lambda a: (a.strip(),), lambda a: a.slice(0, 1)),
    "a.shift": _t(lambda a: (a,), lambda a: a.shift(1)),
    "a.shuffle": _t(lambda a: (a,), lambda a: a.shuffle(3)),
    "a.reverse": _t(lambda a: (a,), lambda a: a.reverse()),
    "a.split": _t(lambda a: (a,), lambda a: list(a.split())),
    "a.count_residues": _t(lambda a: (a,), lambda a: a.count_residues()),
    "a.sort_residues": _t(lambda a: (a,), lambda a: a.sort_residues()),
    "a.serialize": _t(lambda a: (a,), lambda a: a.serialize(include_plus=True)),
    "a.strip": _t(lambda a: (a,), lambda a: a.strip()),
    "a.is_subsequence": _t(lambda a: (a.slice(0, 1), a), lambda q, t: q.is_subsequence(t)),
    "a.find_indices": _t(lambda a: (a.slice(0, 1), a), lambda q, t: q.find_indices(t)),
    "a.has_mods": _t(lambda a: (a,), lambda a: (a.has_mods(), a.contains_sequence_ambiguity(), a.count_internal_mods(), a.count_modified_residues())),
    "a.eq": _t(lambda a: (a, a.copy()), lambda x, y: (x == y, x != y)),
    "create_annotation": _t(lambda a: ({"nterm_mods": ["Acetyl", Mod(1.5, 2)], "internal_mods": {0: ["Phospho"]}, "intervals": [(0, 1, True, ["Methyl"])]},),
                            lambda kw: create_annotation("PEK", **kw)),
    "create_multi_annotation": _t(lambda a: ([a, a.copy()], [False]), lambda anns, conns: pt.create_multi_annotation(anns, conns)),
    "serialize_multi": _t(lambda a: (pt.create_multi_annotation([a.copy(), a.copy()], [False]),), lambda m: m.serialize()),
    # isotope / chem / glycan / score
    "isotopic_distribution": _t(lambda a: ({"C": 2, "H": 5, "O": 0, "e": -1, "p": 1, "n": 1},), lambda d: ISO.isotopic_distribution(d, max_isotopes=3)),
    "isotopic_distribution_fractional": _t(lambda a: ({"C": 2.5, "H": 5, "N": 1},), lambda d: ISO.isotopic_distribution(d)),
    "merge_isotopic_distributions": _t(lambda a: ([(1.0, 0.5), (2.0, 0.5)], [(1.0, 0.25)]), lambda x, y: ISO.merge_isotopic_distributions(x, y)),
    "write_chem_formula": _t(lambda a: ({"C": 2, "H": 3, "13C": 1, "O": 0},), lambda d: CU.write_chem_formula(d, hill_order=True, precision=2)),
    "apply_isotope_mods_to_composition": _t(lambda a: ({"C": 2, "H": 3, "13C": 1}, [Mod("13C", 1), "D"]), lambda d, m: CCALC.apply_isotope_mods_to_composition(d, m)),
    "estimate_comp": _t(lambda a: ([Mod("13C", 1)],), lambda m: CCALC.estimate_comp(1000.0, m)),
    "mod_comp": _t(lambda a: (Mod("Formula:C2H3", 2),), lambda m: CCALC.mod_comp(m)),
    "glycan_comp": _t(lambda a: ({"Hex": 2, "HexNAc": 1},), lambda d: GL.glycan_comp(d)),
    "write_glycan_formula": _t(lambda a: ({"Hex": 2, "HexNAc": 1},), lambda d: GL.write_glycan_formula(d)),
    "parse_static_mods": _t(lambda a: ([Mod("[Acetyl][1.5]@K,N-Term", 1)],), lambda m: pt.proforma.proforma_parser.parse_static_mods(m)),
    "match_spectra": _t(lambda a: ([100.0, 200.0], [99.9, 100.05, 300.0], [1.0, 2.0, 3.0]), lambda f, s, i: SC.match_spectra(f, s, 0.2, "th", "largest", i)),
    "get_fragment_matches": _t(lambda a: (list(reversed(_frags(strip_ambig(a)))), [300.0, 100.0, 200.0], [1.0, 2.0, 3.0]),
                               lambda fr, mz, it: SC.get_fragment_matches(fr, mz, it, 500.0, "th", "closest")),
    "get_match_coverage": _t(lambda a: (_matches(a),), lambda m: SC.get_match_coverage(m)),
    "get_matched_intensity_percentage": _t(lambda a: (_matches(a), [1.0, 2.0, 3.0]), lambda m, i: SC.get_matched_intensity_percentage(m, i)),
    "binomial_score": _t(lambda a: (_frags(strip_ambig(a)), [100.0, 200.0, 300.0]), lambda fr, mz: SC.binomial_score(fr, mz, 0.5, "th")),
}


NOANN = {"create_annotation/objs", "mod_mass", "chem_mass", "glycan_mass", "chem_mz", "create_annotation", "isotopic_distribution", "isotopic_distribution_fractional",
         "merge_isotopic_distributions", "write_chem_formula", "apply_isotope_mods_to_composition", "estimate_comp", "mod_comp", "glycan_comp",
         "write_glycan_formula", "parse_static_mods", "match_spectra"}


def o_call(target: str, seq: str, fixed: Dict[str, bool], excl=(), **sym_flags) -> bool:
    """one call of `target` on an annotation whose feature flags are `fixed` (shape) + `sym_flags` (symbolic)"""
    global SITE
    fl = dict(fixed)
    fl.update(sym_flags)
    make, call = TARGETS[target]
    a = build(seq, fl)
    pristine = build(seq, fl)
    args = make(a)
    ref_args = make(pristine)
    before = [plain(x) for x in args]
    world = _world()
    exc1 = None
    try:
        r1 = call(*args)
    except ValueError as e:                 # rejecting a pre-state is allowed; mutating it is not
        r1, exc1 = None, type(e).__name__
    after = [plain(x) for x in args]
    if after != before:
        SITE = "C08:" + target
        return _fail(why="call changed its argument", target=target, flags=fl, before=before, after=after)
    if _world() != world:
        SITE = "C08:" + target + ":world"
        return _fail(why="call changed process-wide state (modification databases or the caller's RNG)", target=target)
    snap1 = plain(r1)
    # history independence / determinism: the same call again, on the same objects, gives the same result
    exc2 = None
    try:
        r2 = call(*args)
    except ValueError as e:
        r2, exc2 = None, type(e).__name__
    if exc1 != exc2 or plain(r2) != snap1:
        SITE = "C08:" + target + ":repeat"
        return _fail(why="second call on the same objects differs from the first", target=target, first=snap1, second=plain(r2), exc=(exc1, exc2))
    # and equals the result on a fresh, never-used object (thorough tier; follows from the two clauses above plus (1))
    import os
    if os.environ.get("VERIF_TIER", "quick") != "thorough":
        ref_args = None
    try:
        r3 = call(*ref_args) if ref_args is not None else None
        exc3 = None
    except ValueError as e:
        r3, exc3 = None, type(e).__name__
    if ref_args is not None and (exc3 != exc1 or plain(r3) != snap1):
        SITE = "C08:" + target + ":fresh"
        return _fail(why="result on a used object differs from the result on a fresh one", target=target)
    # no aliasing: scrambling the result must not reach the arguments
    scramble(r1)
    try:
        after_scramble = [plain(x) for x in args]
    except Exception as e:      # the scrambled values showed up inside the arguments
        after_scramble = f"{type(e).__name__}: {e}"
    if after_scramble != before:
        SITE = "C08:" + target + ":alias"
        return _fail(why="editing the result changed the argument (shared mutable state)", target=target, flags=fl)
    return True
