"""C10 harness (E1): prefix handling of the modification vocabularies as string lemmas over arbitrary names."""
from __future__ import annotations

import peptacular.mods.mod_db as DB

LAST = None
SITE = None

PREFIXES = {
    "unimod": ("_strip_unimod_str", "is_unimod_str", ["unimod:", "u:"]),
    "psi": ("_strip_psi_str", "is_psi_mod_str", ["mod:", "m:", "psi-mod:"]),
    "xlmod": ("_strip_xlmod_str", "is_xlmod_str", ["xlmod:", "x:"]),
    "resid": ("_strip_resid_str", "is_resid_str", ["resid:", "r:"]),
    "gno": ("_strip_gno_str", "is_gno_str", ["gno:", "g:"]),
}


def install_stubs() -> None:
    pass


def _fail(**kw) -> bool:
    global LAST
    LAST = kw
    return False


def _cased(prefix: str, mask: int) -> str:
    out = ""
    bit = 0
    for ch in prefix:
        if ch.isalpha():
            out += ch.upper() if (mask >> bit) & 1 else ch
            bit += 1
        else:
            out += ch
    return out


def o_strip(db: str, pi: int, mask: int, left: str, mid: str, right: str, excl=()) -> bool:
    """strip(P' + name) == name and is_*(P' + name) for every case variant P' of a documented prefix and name = left+mid+right"""
    strip_name, is_name, prefixes = PREFIXES[db]
    p = _cased(prefixes[pi], mask)
    name = left + mid + right
    got = getattr(DB, strip_name)(p + name)
    if got != name:
        return _fail(why="prefix stripping changes the name", spelled=p + name, got=got, want=name)
    if getattr(DB, is_name)(p + name) is not True:
        return _fail(why="prefixed spelling not recognised", spelled=p + name)
    return True
