"""Field dumps of annotations: plain tuples/lists that can be compared without the library's own __eq__/__hash__."""
from __future__ import annotations

from typing import Any, List, Optional, Tuple


def mods(ms) -> Optional[List[Tuple[Any, int]]]:
    if ms is None:
        return None
    return [(m.val, m.mult) for m in ms]


def dump(a) -> tuple:
    internal = None
    if a.internal_mods is not None:
        internal = sorted(((int(k), mods(v)) for k, v in a.internal_mods.items()), key=lambda t: t[0])
    ivs = None
    if a.intervals is not None:
        ivs = [(iv.start, iv.end, iv.ambiguous, mods(iv.mods)) for iv in a.intervals]
    return (a.sequence, mods(a.isotope_mods), mods(a.static_mods), mods(a.labile_mods), mods(a.unknown_mods), mods(a.nterm_mods),
            mods(a.cterm_mods), internal, ivs, a.charge, mods(a.charge_adducts))


FIELDS = ("sequence", "isotope", "static", "labile", "unknown", "nterm", "cterm", "internal", "intervals", "charge", "adducts")


def diff(d1, d2) -> str:
    out = []
    for name, x, y in zip(FIELDS, d1, d2):
        if x != y:
            out.append(f"{name}: {x!r} != {y!r}")
    return "; ".join(out)


def norm_empty(d: tuple) -> tuple:
    """treat an empty container like None (the library is not consistent about it and the property does not care)"""
    return tuple((None if (x == [] or x == {}) else x) for x in d)
