"""E0: small ground / linear-real queries, z3 (Python API) with an optional cvc5 cross-check of the SMT-LIB text."""
from __future__ import annotations

import time
from fractions import Fraction
from typing import Any, List, Tuple

import z3


def rat(x) -> z3.ArithRef:
    f = Fraction(x) if not isinstance(x, Fraction) else x
    return z3.RealVal(f"{f.numerator}/{f.denominator}")


def prove(claim: z3.BoolRef, assumptions: List[z3.BoolRef] = (), timeout_ms: int = 60000, cross_check: bool = False) -> Tuple[str, float, Any]:
    """-> ('unsat' = claim holds | 'sat' | 'unknown', solver seconds, model or None)"""
    s = z3.Solver()
    s.set("timeout", timeout_ms)
    for a in assumptions:
        s.add(a)
    s.add(z3.Not(claim))
    t0 = time.time()
    r = str(s.check())
    dt = time.time() - t0
    model = s.model() if r == "sat" else None
    if cross_check and r != "unknown":
        r2 = cvc5_check(s.to_smt2())
        if r2 not in (r, "unknown", "error"):
            return "unknown", dt, f"z3 says {r}, cvc5 says {r2}"
    return r, dt, model


def cvc5_check(smt2: str, timeout_ms: int = 60000) -> str:
    try:
        import cvc5
    except Exception:
        return "error"
    try:
        slv = cvc5.Solver()
        slv.setOption("tlimit-per", str(timeout_ms))
        slv.setLogic("ALL")
        parser = cvc5.InputParser(slv)
        parser.setStringInput(cvc5.InputLanguage.SMT_LIB_2_6, smt2, "q")
        sm = parser.getSymbolManager()
        res = None
        while True:
            cmd = parser.nextCommand()
            if cmd.isNull():
                break
            out = cmd.invoke(slv, sm)
            if str(out).strip() in ("sat", "unsat", "unknown"):
                res = str(out).strip()
        return res or "error"
    except Exception:
        return "error"
