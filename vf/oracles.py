"""Independent reference data (not read from /repo): NIST 2016 atomic masses and isotopic compositions, CODATA particles,
standard residue formulas.  Used by the ground (E0) obligations and by native replays."""
from fractions import Fraction as F

ISOTOPES = {  # element -> [(mass, abundance)], lightest first
    "H": [("1.00782503223", "0.999885"), ("2.01410177812", "0.000115")],
    "C": [("12", "0.9893"), ("13.00335483507", "0.0107")],
    "N": [("14.00307400443", "0.99636"), ("15.00010889888", "0.00364")],
    "O": [("15.99491461957", "0.99757"), ("16.99913175650", "0.00038"), ("17.99915961286", "0.00205")],
    "S": [("31.9720711744", "0.9499"), ("32.9714589098", "0.0075"), ("33.967867004", "0.0425"), ("35.96708071", "0.0001")],
    "P": [("30.97376199842", "1")],
    "Se": [("73.922475934", "0.0089"), ("75.919213704", "0.0937"), ("76.919914154", "0.0763"), ("77.91730928", "0.2377"),
           ("79.9165218", "0.4961"), ("81.9166995", "0.0873")],
    "Na": [("22.9897692820", "1")],
    "K": [("38.9637064864", "0.932581"), ("39.963998166", "0.000117"), ("40.9618252579", "0.067302")],
    "Li": [("6.0151228874", "0.0759"), ("7.0160034366", "0.9241")],
    "Mg": [("23.985041697", "0.7899"), ("24.985836976", "0.1000"), ("25.982592968", "0.1101")],
    "Ca": [("39.962590863", "0.96941"), ("41.95861783", "0.00647"), ("42.95876644", "0.00135"), ("43.95548156", "0.02086"),
           ("45.9536890", "0.00004"), ("47.95252276", "0.00187")],
    "Cl": [("34.968852682", "0.7576"), ("36.965902602", "0.2424")],
    "I": [("126.9044719", "1")],
}
PROTON = F("1.007276466621")
NEUTRON = F("1.00866491595")
ELECTRON = F("0.000548579909065")

RESIDUES = {
    "G": "C2H3NO", "A": "C3H5NO", "S": "C3H5NO2", "P": "C5H7NO", "V": "C5H9NO", "T": "C4H7NO2", "C": "C3H5NOS",
    "I": "C6H11NO", "L": "C6H11NO", "J": "C6H11NO", "N": "C4H6N2O2", "D": "C4H5NO3", "Q": "C5H8N2O2", "K": "C6H12N2O",
    "E": "C5H7NO3", "M": "C5H9NOS", "H": "C6H7N3O", "F": "C9H9NO", "R": "C6H12N4O", "Y": "C9H9NO2", "W": "C11H10N2O",
    "U": "C3H5NOSe", "O": "C12H19N3O2", "X": "",
}


def mono(el: str) -> F:
    """mass of the most abundant isotope (the proteomics 'monoisotopic' convention)"""
    best = max(ISOTOPES[el], key=lambda t: F(t[1]))
    return F(best[0])


def avg(el: str) -> F:
    return sum(F(m) * F(a) for m, a in ISOTOPES[el]) / sum(F(a) for _, a in ISOTOPES[el])


def isotope(label: str) -> F:
    table = {"13C": ("C", 1), "15N": ("N", 1), "17O": ("O", 1), "18O": ("O", 2), "34S": ("S", 2), "D": ("H", 1), "T": None,
             "2H": ("H", 1)}
    if label in ("T", "3H"):
        return F("3.0160492779")
    el, idx = table[label]
    return F(ISOTOPES[el][idx][0])


def parse_formula(f: str):
    import re
    out = {}
    for el, cnt in re.findall(r"([A-Z][a-z]?)(-?\d*)", f):
        out[el] = out.get(el, 0) + (int(cnt) if cnt else 1)
    return out


def formula_mass(f, monoisotopic: bool) -> F:
    comp = parse_formula(f) if isinstance(f, str) else f
    return sum((mono(e) if monoisotopic else avg(e)) * c for e, c in comp.items())
