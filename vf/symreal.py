"""E2 "symreal": the real library code runs natively on numbers that carry z3 Real terms.

SymReal is a subclass of float (so `isinstance(x, float)` in the library is True) whose underlying C double is NaN:
any C-level use that bypasses the overloaded operators poisons the result and is detected.  `bool()` of a symbolic
comparison is a *decision*: the explorer runs the harness repeatedly (depth-first over decision prefixes), asks z3
which outcomes are feasible under the path condition, and at the end of every path asks z3 for
path-condition ∧ assumptions ∧ ¬property.  unsat on every path = the property holds for all real values of the symbols
(within the harness shape); sat = a model, i.e. concrete inputs; unknown / Unsupported / NaN leak = inconclusive.

Reading of floats: exact reals (assumption S5).  round(x, p) is the uninterpreted function R(x, p) (S6).
str()/format() of a symbol yields a reversible token (S7).
"""
from __future__ import annotations

import math
import time
from fractions import Fraction
from typing import Any, Callable, Dict, List, Optional, Tuple

import z3

NAN = float("nan")


class Unsupported(Exception):
    """The code under test used a symbolic number in a way the engine cannot model."""


class PathLimit(Exception):
    pass


_ROUND = z3.Function("R", z3.RealSort(), z3.IntSort(), z3.RealSort())


class Ctx:
    def __init__(self, timeout_ms: int = 60000):
        self.solver = z3.Solver()
        self.solver.set("timeout", timeout_ms)
        self.prefix: List[bool] = []
        self.trace: List[bool] = []
        self.alts: List[bool] = []      # alts[i]: the other outcome of decision i is feasible too
        self.queries = 0
        self.solver_s = 0.0
        self.unknown = False
        self.names: Dict[str, z3.ExprRef] = {}
        self.tokens: Dict[str, "SymReal"] = {}
        self.depth_in_run = 0
        self.rounds: List[Tuple[Any, int, Any]] = []    # (argument, digits, R(argument, digits)) of this run
        self.max_decisions = 4000

    def check(self, *assumptions) -> str:
        t0 = time.time()
        r = self.solver.check(*assumptions)
        self.solver_s += time.time() - t0
        self.queries += 1
        s = str(r)
        if s == "unknown":
            # nonlinear real arithmetic: retry with the nlsat tactic on the same assertions, then with cvc5 (wheel) on the SMT-LIB text
            s = self._retry_unknown(assumptions)
        if s == "unknown":
            self.unknown = True
        return s

    def _retry_unknown(self, assumptions) -> str:
        try:
            t0 = time.time()
            s2 = z3.Then("simplify", "purify-arith", "qfnra-nlsat").solver()
            s2.set("timeout", 60000)
            s2.add(*self.solver.assertions())
            s2.add(*assumptions)
            r = str(s2.check())
            self.solver_s += time.time() - t0
            self.queries += 1
            if r in ("sat", "unsat"):
                if r == "sat":
                    self._alt_model = s2.model()
                return r
        except Exception:
            pass
        try:
            from .smt import cvc5_check
            t0 = time.time()
            s3 = z3.Solver()
            s3.add(*self.solver.assertions())
            s3.add(*assumptions)
            r = cvc5_check(s3.to_smt2(), timeout_ms=60000)
            self.solver_s += time.time() - t0
            self.queries += 1
            if r == "unsat":
                return "unsat"       # (a cvc5 'sat' has no z3 model to replay: stay inconclusive)
        except Exception:
            pass
        return "unknown"

    def decide(self, term) -> bool:
        term = z3.simplify(term)
        if z3.is_true(term):
            return True
        if z3.is_false(term):
            return False
        i = len(self.trace)
        if i >= self.max_decisions:
            raise PathLimit("too many decisions on one path")
        if i < len(self.prefix):
            d = self.prefix[i]
            self.trace.append(d)
            self.alts.append(False)
            self.solver.add(term if d else z3.Not(term))
            return d
        r_true = self.check(term)
        if r_true == "sat":
            r_false = self.check(z3.Not(term))
            d = True
            alt = (r_false == "sat")
        elif r_true == "unsat":
            d = False
            alt = False
        else:
            raise Unsupported("solver returned unknown on a branch condition")
        self.trace.append(d)
        self.alts.append(alt)
        self.solver.add(term if d else z3.Not(term))
        return d


CTX: Optional[Ctx] = None


def term(x: Any):
    if isinstance(x, SymReal):
        return x.t
    if isinstance(x, z3.ArithRef):
        return x
    if isinstance(x, bool):
        return z3.RealVal(1 if x else 0)
    if isinstance(x, int):
        return z3.RealVal(x)
    if isinstance(x, float):
        if x != x or x in (float("inf"), float("-inf")):
            raise Unsupported("non-finite float met a symbolic number (NaN leak?)")
        f = Fraction(x)
        return z3.RealVal(f"{f.numerator}/{f.denominator}")
    if isinstance(x, Fraction):
        return z3.RealVal(f"{x.numerator}/{x.denominator}")
    raise Unsupported(f"arithmetic between symbolic number and {type(x).__name__}")


def _num(o: Any) -> bool:
    return isinstance(o, (int, float, Fraction))


class SymBool:
    __slots__ = ("t",)

    def __init__(self, t):
        self.t = t

    def __bool__(self):
        return CTX.decide(self.t)

    def __and__(self, o):
        return SymBool(z3.And(self.t, o.t if isinstance(o, SymBool) else z3.BoolVal(bool(o))))

    def __or__(self, o):
        return SymBool(z3.Or(self.t, o.t if isinstance(o, SymBool) else z3.BoolVal(bool(o))))

    def __invert__(self):
        return SymBool(z3.Not(self.t))


class SymReal(float):
    def __new__(cls, t):
        o = float.__new__(cls, NAN)
        o.t = t
        return o

    # arithmetic
    def __add__(s, o):
        return SymReal(s.t + term(o)) if _num(o) else NotImplemented

    def __radd__(s, o):
        return SymReal(term(o) + s.t) if _num(o) else NotImplemented

    def __sub__(s, o):
        return SymReal(s.t - term(o)) if _num(o) else NotImplemented

    def __rsub__(s, o):
        return SymReal(term(o) - s.t) if _num(o) else NotImplemented

    def __mul__(s, o):
        return SymReal(s.t * term(o)) if _num(o) else NotImplemented

    def __rmul__(s, o):
        return SymReal(term(o) * s.t) if _num(o) else NotImplemented

    def __truediv__(s, o):
        if not _num(o):
            return NotImplemented
        if isinstance(o, SymReal):
            if CTX.decide(o.t == 0):
                raise ZeroDivisionError("float division by zero")
        elif o == 0:
            raise ZeroDivisionError("float division by zero")
        return SymReal(s.t / term(o))

    def __rtruediv__(s, o):
        if not _num(o):
            return NotImplemented
        if CTX.decide(s.t == 0):
            raise ZeroDivisionError("float division by zero")
        return SymReal(term(o) / s.t)

    def __pow__(s, o, mod=None):
        if isinstance(o, int) and not isinstance(o, bool) and 0 <= o <= 8:
            r = z3.RealVal(1)
            for _ in range(o):
                r = r * s.t
            return SymReal(r)
        raise Unsupported("pow of symbolic number")

    def __rpow__(s, o, mod=None):
        raise Unsupported("symbolic exponent")

    def __floordiv__(s, o):
        raise Unsupported("floordiv of symbolic number")

    __rfloordiv__ = __mod__ = __rmod__ = __divmod__ = __rdivmod__ = __floordiv__

    def __neg__(s):
        return SymReal(-s.t)

    def __pos__(s):
        return s

    def __abs__(s):
        return SymReal(z3.If(s.t >= 0, s.t, -s.t))

    # comparisons
    def __lt__(s, o):
        return SymBool(s.t < term(o)) if _num(o) else NotImplemented

    def __le__(s, o):
        return SymBool(s.t <= term(o)) if _num(o) else NotImplemented

    def __gt__(s, o):
        return SymBool(s.t > term(o)) if _num(o) else NotImplemented

    def __ge__(s, o):
        return SymBool(s.t >= term(o)) if _num(o) else NotImplemented

    def __eq__(s, o):
        if not _num(o):
            return False
        return SymBool(s.t == term(o))

    def __ne__(s, o):
        if not _num(o):
            return True
        return SymBool(s.t != term(o))

    def __bool__(s):
        return CTX.decide(s.t != 0)

    def __hash__(s):
        raise Unsupported("hash() of a symbolic number")

    def __float__(s):
        raise Unsupported("float() of a symbolic number")

    def __int__(s):
        raise Unsupported("int() of a symbolic number")

    __index__ = __trunc__ = __floor__ = __ceil__ = __int__

    def __round__(s, n=None):
        if n is None:
            raise Unsupported("round() to int of a symbolic number")
        r = _ROUND(s.t, z3.IntVal(int(n)))
        CTX.rounds.append((s.t, int(n), r))
        return SymReal(r)

    def is_integer(s):
        raise Unsupported("is_integer of a symbolic number")

    def __repr__(s):
        return _token(s)

    __str__ = __repr__

    def __format__(s, spec):
        return _token(s)

    def __reduce__(s):
        # deepcopy/copy of annotations holding symbols: share the symbol (immutable)
        return (_identity, (_Box(s),))

    def __deepcopy__(s, memo):
        return s

    def __copy__(s):
        return s


class _Box:
    def __init__(self, v):
        self.v = v


def _identity(b):
    return b.v


TOKEN_L = "⟦"
TOKEN_R = "⟧"


def _token(s: SymReal) -> str:
    for k, v in CTX.tokens.items():
        if v is s or v.t.eq(s.t):
            return k
    k = f"{TOKEN_L}{len(CTX.tokens)}{TOKEN_R}"
    CTX.tokens[k] = s
    return k


def untoken(text: Any):
    """Map a token (optionally with a leading '+' or '-') back to its symbol; None if `text` is not a token."""
    if not isinstance(text, str) or TOKEN_L not in text:
        return None
    t = text.strip()
    sign = 1
    if t[:1] in "+-":
        sign = -1 if t[0] == "-" else 1
        t = t[1:]
    v = CTX.tokens.get(t)
    if v is None:
        return None
    return v if sign == 1 else -v


def real(name: str) -> SymReal:
    """A named real-valued symbol (same name -> same symbol across re-executions)."""
    v = CTX.names.get(name)
    if v is None:
        v = z3.Real(name)
        CTX.names[name] = v
    return SymReal(v)


def const(x) -> SymReal:
    return SymReal(term(x))


def assume(b) -> None:
    """Persistent assumption (part of the claim); must be called before the code it constrains."""
    CTX.solver.add(b.t if isinstance(b, (SymBool,)) else b)


def T(x):
    """z3 term of a number (symbolic or concrete)."""
    return term(x)


def close(a, b, tol) -> Any:
    d = T(a) - T(b)
    tt = T(tol)
    return z3.And(d <= tt, -d <= tt)


class Outcome:
    def __init__(self):
        self.status = "inconclusive"   # holds | cex | inconclusive
        self.paths = 0
        self.queries = 0
        self.solver_s = 0.0
        self.detail = ""
        self.model: Dict[str, Any] = {}
        self.witness: Dict[str, Any] = {}
        self.feasible_paths = 0


def _model_to_py(m: z3.ModelRef, names: Dict[str, z3.ExprRef]) -> Dict[str, Any]:
    out = {}
    for k, v in names.items():
        val = m.eval(v, model_completion=True)
        try:
            fr = Fraction(val.numerator_as_long(), val.denominator_as_long())
            out[k] = float(fr)
        except Exception:
            try:
                out[k] = float(val.approx(20).numerator_as_long()) / float(val.approx(20).denominator_as_long())
            except Exception:
                out[k] = str(val)
    return out


def explore(fn: Callable[[], Any], max_paths: int = 20000, timeout_ms: int = 60000, budget_s: float = 600.0,
            setup: Optional[Callable[[], None]] = None, validate: Optional[Callable[[Dict[str, Any]], bool]] = None) -> Outcome:
    """fn() runs the code under test on symbols and returns the property: a z3 Bool term, a SymBool or a bool.
    `setup` (optional) is called once per run before fn and may call assume()."""
    global CTX
    ctx = Ctx(timeout_ms)
    CTX = ctx
    out = Outcome()
    stack: List[List[bool]] = [[]]
    t_start = time.time()
    try:
        while stack:
            prefix = stack.pop()
            ctx.prefix = prefix
            ctx.trace = []
            ctx.alts = []
            ctx.rounds = []
            ctx.solver.push()
            try:
                if setup is not None:
                    setup()
                prop = fn()
            except Unsupported as e:
                out.detail = f"Unsupported: {e}"
                return _fin(out, ctx)
            except PathLimit as e:
                out.detail = str(e)
                return _fin(out, ctx)
            except Exception as e:
                # the code under test raised on this path: the property does not hold there unless the path is infeasible; the
                # caller's native replay decides whether the real code does the same (a harness slip does not reproduce)
                out.detail = f"raised {type(e).__name__}: {str(e)[:200]}"
                prop = False
            out.paths += 1
            for i in range(len(prefix), len(ctx.trace)):
                if ctx.alts[i]:
                    stack.append(ctx.trace[:i] + [not ctx.trace[i]])
            if isinstance(prop, SymBool):
                pt = prop.t
            elif isinstance(prop, bool):
                pt = z3.BoolVal(prop)
            else:
                pt = prop
            if out.paths == 1 or not out.witness:
                r0 = ctx.check()
                if r0 == "sat":
                    out.witness = _model_to_py(ctx.solver.model(), ctx.names) or {"_": "no symbols on this path"}
                    out.feasible_paths += 1
            else:
                out.feasible_paths += 1
            r = ctx.check(z3.Not(pt))
            if r == "sat":
                out.status = "cex"
                out.model = _model_to_py(ctx.solver.model(), ctx.names)
                out.detail = f"path {out.paths}: property false" + (f" ({out.detail})" if out.detail.startswith("raised ") else "")
                # z3 likes boundary values (ties with a threshold) that binary64 replay cannot hit: if the caller's validator
                # rejects the model, ask for up to 4 other models of the same query that move every rejected value away
                tries = 0
                while validate is not None and tries < 2 and not validate(out.model):
                    tries += 1
                    block = []
                    for nm, val in out.model.items():
                        if isinstance(val, float):
                            eps = 1e-3 * max(1.0, abs(val))
                            x = ctx.names[nm]
                            block.append(z3.Or(x > val + eps, x < val - eps))
                    if not block:
                        break
                    ctx.solver.add(z3.Or(*block))
                    if ctx.check(z3.Not(pt)) != "sat":
                        break
                    out.model = _model_to_py(ctx.solver.model(), ctx.names)
                ctx.solver.pop()
                return _fin(out, ctx)
            ctx.solver.pop()
            if r != "unsat":
                out.detail = "solver returned unknown on the final query"
                return _fin(out, ctx)
            if out.paths >= max_paths:
                out.detail = f"path cap {max_paths} reached"
                return _fin(out, ctx)
            if time.time() - t_start > budget_s:
                out.detail = f"time budget {budget_s}s reached after {out.paths} paths"
                return _fin(out, ctx)
        out.status = "holds"
        return _fin(out, ctx)
    finally:
        CTX = None


def _fin(out: Outcome, ctx: Ctx) -> Outcome:
    out.queries = ctx.queries
    out.solver_s = ctx.solver_s
    return out


def is_sym(x) -> bool:
    return isinstance(x, SymReal)


def concrete_eval(x, env: Dict[str, float]) -> float:
    """Evaluate a (possibly symbolic) number under a binding of symbol names to floats (engine validation)."""
    if not isinstance(x, SymReal):
        return float(x)
    subs = [(z3.Real(k), z3.RealVal(repr(v))) for k, v in env.items()]
    v = z3.simplify(z3.substitute(x.t, *subs))
    try:
        return float(Fraction(v.numerator_as_long(), v.denominator_as_long()))
    except Exception:
        raise Unsupported(f"term does not evaluate to a number: {v}")


def assume_round_axiom() -> None:
    """|R(x,p) - x| <= 0.5*10^-p for every rounding recorded so far in this run (the only fact about round() a harness may use)"""
    for x, p, r in list(CTX.rounds):
        half = z3.RealVal(5) / z3.RealVal(10 ** (p + 1))
        CTX.solver.add(z3.And(r - x <= half, x - r <= half))
