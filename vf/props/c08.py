"""C08 queries never change their arguments / history independence — E1 (CrossHair), one inductive step per public call."""
from __future__ import annotations

from typing import List

from ..ch import Cond, run_conds
from ..common import Report, load_known_findings

PID = "C08"
GROUP_A = ["labile", "nterm", "cterm", "charge"]
GROUP_B = ["unknown", "interval", "static", "isotope"]
REST = ["internal", "adducts"]


def build(tier: str) -> List[Cond]:
    from ..h import c08 as H
    conds: List[Cond] = []
    t = 120 if tier == "quick" else 600
    seqs = ["KEC"] if tier == "quick" else ["KEC", "PEKC", "KSTE"]
    for seq in seqs:
        for name in H.TARGETS:
            if name in H.NOANN:
                if seq == seqs[0]:
                    conds.append(Cond(oid=f"{name}/-", clause="one call leaves every argument and process-wide state unchanged, repeats identically, shares nothing mutable with its result",
                                      module="vf.h.c08", func="o_call", shape=dict(target=name, seq=seq, fixed={}), sym=[("labile", "bool")], pre=[],
                                      timeout=t, functions=[name], bounds="the function takes no annotation: its dictionary/list arguments are one representative set"))
                continue
            # "bare": nothing but residues (has_mods() is False: several functions take a shortcut there), one residue modification symbolic
            variants = [("bare", ["internal"], {f: False for f in GROUP_A + GROUP_B + ["adducts"]}),
                        ("A", GROUP_A, {**{f: (i % 2 == 0) for i, f in enumerate(GROUP_B)}, "internal": True, "adducts": False}),
                        ("B", GROUP_B, {**{f: True for f in GROUP_A}, "internal": True, "adducts": True})]
            if tier == "thorough":
                variants += [("A0", GROUP_A + ["internal"], {**{f: False for f in GROUP_B}, "adducts": False}),
                             ("B0", GROUP_B + ["adducts"], {**{f: False for f in GROUP_A}, "internal": False}),
                             ("A1", GROUP_A + ["adducts"], {**{f: True for f in GROUP_B}, "internal": False})]
            for tag, symf, fixed in variants:
                conds.append(Cond(oid=f"{name}/{seq}/{tag}", clause="one call leaves every argument and process-wide state unchanged, repeats identically on the same and on a fresh object, and shares nothing mutable with its result",
                                  module="vf.h.c08", func="o_call", shape=dict(target=name, seq=seq, fixed=fixed), sym=[(f, "bool") for f in symf], pre=[],
                                  timeout=t, functions=[name], bounds=f"pre-state: features {', '.join(symf)} symbolic (16-32 combinations), the others fixed to {fixed}"))
    return conds


def run(tier: str, seed: int, only=None) -> Report:
    from ..h import c08 as H
    from ..ch import tier_conds
    conds = tier_conds(build, tier, cap=700)
    if only:
        conds = [c for c in conds if only in c.oid]
    rep = Report(
        property_id=PID, tier=tier, seed=seed,
        explanation="Not call histories: one inductive step. For each of %d public functions/methods that take an annotation, dictionary or "
                    "list, the argument is built from symbolic feature flags (labile, terminal, charge, ... each on/off) through the public "
                    "constructor, snapshotted together with the process-wide state (sizes of the modification databases, the global RNG "
                    "state), the function is called once, and CrossHair must confirm over all pre-states that (1) every argument's snapshot "
                    "is unchanged, (2) the process-wide state is unchanged, (3) a second call on the same objects and a call on a fresh "
                    "equal object give the same result, (4) scrambling every mutable part of the result leaves the arguments unchanged. If "
                    "every call preserves the snapshot, every history of such calls does, and no result can depend on history." % len(H.TARGETS),
        functions=sorted(H.TARGETS),
        bounds="pre-states: two groups of four feature flags symbolic, the rest fixed (2 x 16 combinations per function; thorough: five groups of 4-5), "
               "one residue string (thorough: two); every function with one representative argument set",
        outside="sequences of three calls are covered by induction, not enumerated; unseeded shuffle (it is specified to consume the global RNG); "
                "functions taking only strings/numbers",
        assumptions=["S1, S3r", "the pre-state invariant is 'constructible through the public API'", "ValueError for a pre-state is allowed, mutation is not"],
    )
    rep.obligations = run_conds(conds, PID, known=load_known_findings(PID))
    return rep


def replay(rec: dict) -> int:
    from ..ch import replay_native
    inp = rec["inputs"]
    mod, func = inp["call"].rsplit(".", 1)
    r = replay_native(mod, func, {}, {"kwargs": inp["kwargs"]}, [])
    print("replay:", r.get("ok"), r.get("exc") or r.get("last"))
    if r.get("ok") is False:
        print(f"VIOLATION property={PID} replay=(reproduced)")
        return 1
    return 0
