"""C19 combinatorial expansions — E1 (CrossHair)."""
from __future__ import annotations

from typing import List

from ..ch import Cond, run_conds
from ..common import Report, load_known_findings

PID = "C19"
FUNCS = ["ProFormaAnnotation.permutations", "ProFormaAnnotation.product", "ProFormaAnnotation.combinations",
         "ProFormaAnnotation.combinations_with_replacement", "combinatoric.permutations/product/combinations/combinations_with_replacement",
         "ProFormaAnnotation.split", "ProFormaAnnotation.pop_mods", "ProFormaAnnotation.serialize_start/end", "proforma_parser.parse"]
KINDS = ["permutations", "combinations", "combinations_with_replacement", "product"]


def build(tier: str) -> List[Cond]:
    conds: List[Cond] = []
    t = 120 if tier == "quick" else 900
    seqs = ["T", "TI", "PEP"] if tier == "quick" else ["T", "TI", "PEP", "TIDE"]
    for seq in seqs:
        L = len(seq)
        for kind in KINDS:
            for npos in (0, 1, 2):
                if npos > L:
                    continue
                for glob in (False, True):
                    if tier == "quick" and ((glob and npos == 2) or (kind == "product" and L >= 3 and npos == 2)):
                        continue
                    for none_size in (False, True):
                        if none_size and npos != 1:
                            continue
                        hi = L + 1 if kind in ("permutations", "combinations") else L
                        sym = [("size", "int")] + [(f"p{i}", "int") for i in range(npos)] + ([("nt", "bool"), ("ct", "bool")] if glob and L <= 2 else [])
                        pre = [f"1 <= size <= {hi}"] + [f"0 <= p{i} < {L}" for i in range(npos)]
                        if glob and L > 2 and not none_size:
                            # terminal modifications independently present (case split for the longer sequences)
                            for (nt_, ct_) in ((True, False), (False, True)):
                                conds.append(Cond(oid=f"{kind}/{seq}/mods={npos}/glob=1/nt={int(nt_)}/ct={int(ct_)}",
                                                  clause="results = the standard enumeration over modified residues wrapped in the unchanged annotations (only one terminus modified)",
                                                  module="vf.h.c19", func="o_comb", shape=dict(kind=kind, seq=seq, npos=npos, glob=True, none_size=False, nt=nt_, ct=ct_),
                                                  sym=[("size", "int")] + [(f"p{i}", "int") for i in range(npos)], pre=pre, timeout=t, functions=FUNCS,
                                                  bounds=f"len {L}; size symbolic; exactly one terminus modified"))
                        conds.append(Cond(oid=f"{kind}/{seq}/mods={npos}/glob={int(glob)}/size={'None' if none_size else 'sym'}",
                                          clause="results = the standard enumeration over residues with their own modifications, in order, wrapped in the unchanged global/labile/terminal annotations; counts; every result parses",
                                          module="vf.h.c19", func="o_comb", shape=dict(kind=kind, seq=seq, npos=npos, glob=glob, none_size=none_size),
                                          sym=sym, pre=pre, timeout=t, functions=FUNCS,
                                          bounds=f"len {L}; size 1..{hi} symbolic (realised at itertools), modification positions symbolic"))
    # state across calls and input forms, on the short sequences: the same peptide object expanded again and by another kind, the
    # module-level function given the ProForma string
    for seq in seqs[:2]:
        L = len(seq)
        for kind in KINDS:
            for npos in (0, 1):
                for glob in (False, True):
                    hi = L + 1 if kind in ("permutations", "combinations") else L
                    conds.append(Cond(oid=f"{kind}/{seq}/mods={npos}/glob={int(glob)}/again",
                                      clause="a second expansion of the same peptide object, an expansion of another kind afterwards and the string input form give the same results",
                                      module="vf.h.c19", func="o_comb", shape=dict(kind=kind, seq=seq, npos=npos, glob=glob, none_size=False, extra=True),
                                      sym=[("size", "int")] + [(f"p{i}", "int") for i in range(npos)],
                                      pre=[f"1 <= size <= {hi}"] + [f"0 <= p{i} < {L}" for i in range(npos)], timeout=t, functions=FUNCS,
                                      bounds=f"len {L}; size symbolic"))
    return conds


def run(tier: str, seed: int, only=None) -> Report:
    from ..ch import tier_conds
    conds = tier_conds(build, tier, cap=200)
    if only:
        conds = [c for c in conds if only in c.oid]
    rep = Report(
        property_id=PID, tier=tier, seed=seed,
        explanation="The four expansions run under CrossHair on annotations built from a concrete residue string and symbolic modification "
                    "positions, with the size argument symbolic (including one above n for the non-repeating forms); every result's field "
                    "dump is compared, in order, with itertools over the oracle's (residue, own modifications) pairs wrapped in the unchanged "
                    "globals, the counts with n!/(n-k)!, C(n,k), C(n+k-1,k), n^k, and the string-level wrappers must parse back to the same.",
        functions=FUNCS, bounds="residue strings of length <=3 (quick) / <=4 (thorough); 0-2 residue modifications; all global/terminal/labile kinds on or off; no intervals",
        outside="lengths 5-6 (result lists grow as n^n); intervals (excluded by the property)",
        assumptions=["S1", "size is realised at itertools (enumeration of the declared range)"],
    )
    rep.obligations = run_conds(conds, PID, known=load_known_findings(PID))
    return rep


def replay(rec: dict) -> int:
    from ..ch import replay_native
    inp = rec["inputs"]
    mod, func = inp["call"].rsplit(".", 1)
    r = replay_native(mod, func, {}, {"kwargs": inp["kwargs"]}, [])
    print("replay:", r.get("ok"), r.get("exc") or r.get("last"))
    if r.get("ok") is False:
        print(f"VIOLATION property={PID} replay=(reproduced)")
        return 1
    return 0
