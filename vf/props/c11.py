"""C11 reorder / cut — E1 (CrossHair): shift amount, slice bounds, modification positions, interval bounds, seed symbolic."""
from __future__ import annotations

from typing import List

from ..ch import Cond, run_conds
from ..common import Report, load_known_findings

PID = "C11"
FUNCS = ["ProFormaAnnotation.shift", "ProFormaAnnotation.reverse", "ProFormaAnnotation.shuffle", "ProFormaAnnotation.sort_residues",
         "ProFormaAnnotation.slice", "ProFormaAnnotation.split", "sequence_funcs.split", "proforma_parser.create_annotation",
         "ProFormaAnnotation.serialize"]


def _pos_pre(L, npos):
    return [f"0 <= p{k} < {L}" for k in range(npos)]


def _pos_sym(npos):
    return [(f"p{k}", "int") for k in range(npos)]


def build(tier: str) -> List[Cond]:
    import math
    conds: List[Cond] = []
    seqs = ["T", "TI", "PEP"] if tier == "quick" else ["T", "TI", "PEP", "TIDE", "KPEPK"]
    t = 90 if tier == "quick" else 600
    flagsets = [(False, False), (True, False), (False, True), (True, True)]
    for seq in seqs:
        L = len(seq)
        for (glob, inplace) in flagsets:
            for npos in (0, 1, 2):
                if npos > L or (tier == "quick" and glob and inplace and npos != 1):
                    continue
                base = dict(seq=seq, npos=npos, glob=glob, inplace=inplace)
                tag = f"{seq}/mods={npos}/glob={int(glob)}/inplace={int(inplace)}"
                conds.append(Cond(oid=f"shift/{tag}", clause="shift(n): residues rotate with their modifications; shift(k) then shift(-k), shift(len), shift(k+len)",
                                  module="vf.h.c11", func="o_shift", shape=base, sym=[("n", "int")] + _pos_sym(npos), pre=_pos_pre(L, npos),
                                  timeout=t, functions=FUNCS[:1], bounds=f"len {L}; n over all integers; {npos} modification positions symbolic"))
                if not (L >= 5):
                    conds.append(Cond(oid=f"shuffle/{tag}", clause="shuffle: for every permutation the generator can produce, each residue keeps its modifications and globals/terminals stay",
                                      module="vf.h.c11", func="o_shuffle", shape=dict(base, seed=7), sym=[("sel", "int")] + _pos_sym(npos),
                                      pre=_pos_pre(L, npos) + [f"0 <= sel < {math.factorial(L)}"], timeout=t, functions=FUNCS[2:3],
                                      bounds=f"len {L}; all {math.factorial(L)} permutations via the S-RNG stub"))
                conds.append(Cond(oid=f"sort/{tag}", clause="sort_residues: stable sort carrying modifications", module="vf.h.c11", func="o_sort",
                                  shape=base, sym=_pos_sym(npos) or [("p0", "int")], pre=_pos_pre(L, max(npos, 1)), timeout=t,
                                  functions=FUNCS[3:4], bounds=f"len {L}"))
            for (npos, nint) in ((0, 0), (1, 0), (2, 0), (0, 1), (1, 1), (0, 2), (1, 2)):
                if npos > L or (nint and L < 2) or (nint == 2 and L < 3):
                    continue
                if tier == "quick" and ((npos, nint) == (1, 2) or (glob and inplace and (npos, nint) not in ((0, 0), (1, 1)))):
                    continue
                base = dict(seq=seq, npos=npos, glob=glob, inplace=inplace)
                tag = f"{seq}/mods={npos}/glob={int(glob)}/inplace={int(inplace)}"
                ivsym, ivpre = [], []
                if nint >= 1:
                    ivsym += [("a0", "int"), ("b0", "int"), ("amb", "bool")]
                    ivpre += [f"0 <= a0 < b0 <= {L}"]
                else:
                    ivsym += [("amb", "bool")]
                if nint >= 2:
                    ivsym += [("a1", "int"), ("b1", "int")]
                    ivpre += [f"b0 <= a1 < b1 <= {L}"]
                conds.append(Cond(oid=f"reverse/{tag}/intervals={nint}", clause="reverse: residues reversed with modifications, intervals cover the same residues, terminals stay or swap; reverse twice = identity",
                                  module="vf.h.c11", func="o_reverse", shape=dict(base, nint=nint), sym=[("swap", "bool")] + ivsym + _pos_sym(npos),
                                  pre=_pos_pre(L, npos) + ivpre, timeout=t, functions=FUNCS[1:2], bounds=f"len {L}; {nint} intervals with symbolic bounds"))
                spre = [f"0 <= i <= j <= {L}"]
                if nint >= 1:
                    spre += ["(i <= a0 or i >= b0) and (j <= a0 or j >= b0)"]
                if nint >= 2:
                    spre += ["(i <= a1 or i >= b1) and (j <= a1 or j >= b1)"]
                splits = [None] if (npos + nint < 2 or L < 3) else list(range(L + 1))      # case split on i keeps conditions small
                for iv_ in splits:
                    conds.append(Cond(oid=f"slice/{tag}/intervals={nint}" + (f"/i={iv_}" if iv_ is not None else ""),
                                      clause="slice [i,j): exactly the residues, residue modifications and fully contained intervals; termini only if contained",
                                      module="vf.h.c11", func="o_slice", shape=dict(base, nint=nint), sym=[("i", "int"), ("j", "int")] + ivsym + _pos_sym(npos),
                                      pre=_pos_pre(L, npos) + ivpre + spre + ([f"i == {iv_}"] if iv_ is not None else []), timeout=t, functions=FUNCS[4:5],
                                      bounds=f"len {L}; all 0<=i<=j<=len not cutting an interval"))
        for npos in (0, 1, 2):
            if npos > L:
                continue
            for glob in (False, True):
                if L >= 2 and not (tier == "quick" and npos >= 2):
                    for iv_ in range(L + 1):
                        for jv_ in range(iv_, L + 1):
                            if jv_ - iv_ == 0 and iv_ not in (0, L):
                                continue
                            conds.append(Cond(oid=f"slice-compose/{seq}/mods={npos}/glob={int(glob)}/i={iv_}/j={jv_}", clause="slice of a slice = slice of the summed offsets",
                                              module="vf.h.c11", func="o_slice_compose", shape=dict(seq=seq, npos=npos, glob=glob, i=iv_, j=jv_),
                                              sym=[("k", "int"), ("l", "int")] + _pos_sym(npos),
                                              pre=_pos_pre(L, npos) + [f"0 <= k <= l <= {jv_ - iv_}"], timeout=t, functions=FUNCS[4:5],
                                              bounds=f"len {L}; outer slice [{iv_},{jv_}) is the shape, inner bounds symbolic"))
            for term in (False, True):
                conds.append(Cond(oid=f"split-join/{seq}/mods={npos}/term={int(term)}", clause="split into residues then concatenate reproduces the peptide",
                                  module="vf.h.c11", func="o_split_join", shape=dict(seq=seq, npos=npos, term=term), sym=_pos_sym(npos) or [("p0", "int")],
                                  pre=_pos_pre(L, max(npos, 1)), timeout=t, functions=FUNCS[5:7], bounds=f"len {L}; residue, terminal and labile modifications"))
    # the module-level wrappers (annotation object or ProForma string in, string out) against the annotation methods
    for seq in seqs[1:3]:
        L = len(seq)
        for glob in (False, True):
            for npos in ((1,) if tier == "quick" else (0, 1, 2)):
                if npos > L:
                    continue
                for op in ("reverse", "shift", "shuffle", "sort", "span", "split"):     # count_residues: the statement does not say what it counts
                    sym = [("as_str", "bool")] + _pos_sym(npos)
                    pre = _pos_pre(L, npos)
                    if op == "shift":
                        sym.append(("n", "int")); pre.append(f"{-2 * L} <= n <= {2 * L}")
                    if op == "reverse":
                        sym.append(("swap", "bool"))
                    if op == "span":
                        sym += [("i", "int"), ("j", "int")]; pre.append(f"0 <= i <= j <= {L}")
                    for isplit in (range(L + 1) if (op == "span" and glob and L >= 3) else (None,)):      # case split keeps the condition small
                      conds.append(Cond(oid=f"wrappers/{op}/{seq}/mods={npos}/glob={int(glob)}" + (f"/i={isplit}" if isplit is not None else ""), clause="module-level reverse/shift/shuffle/sort/span_to_sequence/split = the annotation method, for object and string input; input unchanged",
                                      module="vf.h.c11", func="o_wrappers", shape=dict(seq=seq, npos=npos, glob=glob, op=op), sym=sym,
                                      pre=pre + ([f"i == {isplit}"] if isplit is not None else []), timeout=t,
                                      functions=["sequence_funcs." + {"span": "span_to_sequence", "count": "count_residues"}.get(op, op)],
                                      bounds=f"len {L}; input form, positions and the operation's parameter symbolic"))
    return conds


def run(tier: str, seed: int, only=None) -> Report:
    from ..ch import tier_conds
    conds = tier_conds(build, tier, cap=600)
    if only:
        conds = [c for c in conds if only in c.oid]
    rep = Report(
        property_id=PID, tier=tier, seed=seed,
        explanation="Each operation runs under CrossHair on an annotation built through the public constructor from a concrete residue "
                    "string (shape) and symbolic modification positions, interval bounds, shift amount (all integers), slice bounds, "
                    "seed and flags; the result's field dump must equal the permutation/cut the property defines, the receiver must be "
                    "unchanged unless inplace, and the stated identities must hold.",
        functions=FUNCS,
        bounds="residue strings T, TI, PEP (quick) + TIDE, KPEPK (thorough); 0-2 residue modifications at symbolic positions (may "
               "coincide), 0-2 intervals with symbolic bounds (adjacent allowed), all global/terminal kinds on or off; shift n in Z; "
               "every permutation of the residues for shuffle (S-RNG stub)",
        outside="mass invariance is a consequence of the dump equality plus C02; lengths beyond 6; shift/shuffle/sort of annotations with "
                "intervals (the property text constrains intervals only under reversal and slicing)",
        assumptions=["field dumps compare public fields; empty containers are identified with None",
                     "S-RNG: random.shuffle applies an arbitrary permutation chosen by a symbolic selector; random.seed is a no-op "
                     "(per-seed determinism and the caller's RNG state are C08's subject)"],
    )
    rep.obligations = run_conds(conds, PID, known=load_known_findings(PID))
    return rep


def replay(rec: dict) -> int:
    from ..ch import replay_native
    inp = rec["inputs"]
    mod, func = inp["call"].rsplit(".", 1)
    r = replay_native(mod, func, {}, {"kwargs": inp["kwargs"]}, [])
    print("replay:", r.get("ok"), r.get("exc") or r.get("last"))
    if r.get("ok") is False:
        print(f"VIOLATION property={PID} replay=(reproduced)")
        return 1
    return 0
