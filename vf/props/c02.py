"""C02 peptide mass / m/z = sum of physical parts — E2 (symreal) + E0 ground obligations."""
from __future__ import annotations

import itertools
import json
import time
from concurrent.futures import ProcessPoolExecutor
import multiprocessing as mp
from typing import Any, Dict, List, Optional, Tuple

from ..common import CEX, DISCHARGED, INCONCLUSIVE, NCPU, Obligation, Report, load_known_findings

PID = "C02"
FUNCS = ["mass_calc.mass", "mass_calc.mz", "mass_calc.adjust_mass", "mass_calc.adjust_mz", "mass_calc.mod_mass",
         "mass_calc._parse_mod_mass", "mass_calc._parse_charge_adducts_mass", "mass_calc._parse_adduct_mass",
         "proforma_parser.parse_ion_elements", "proforma_parser.parse_static_mods", "chem_util.chem_mass",
         "chem_util.parse_chem_formula", "mass_calc.glycan_mass", "mod_db.parse_unimod_mass",
         "proforma_parser.create_annotation"]

TOL = {True: 1e-5, False: 2e-3}


# ------------------------------------------------------------------------------------------------ scenarios

SLOTS = ["labile", "unknown", "nterm", "cterm", "internal0", "internalL", "interval", "staticAA", "staticN", "staticC"]
KINDS = [("num", None), ("formula", "C2H3"), ("formula", "[13C2]N"), ("formula", "H-2O"), ("formula", "C2H2[13C2]H2O"), ("formula", "[13C2]H3N[13C]"), ("glycan", "Hex2"),
         ("glycan", "HexNAc2Hex3"), ("unimod", "Acetyl"), ("unimod", "U:Oxidation"), ("unimod", "UNIMOD:1")]
# since session 5 the quick tier runs what used to be the thorough scope (seconds); thorough adds longer peptides
SEQS_Q = ["P", "PE", "PEP", "GASP", "KVKAW", "MMRMQY"]
SEQS_T = SEQS_Q + ["CDEFHILNT", "UOSTVWYACDEFGHIK"]


def _place(sc: Dict[str, Any], slot: str, spec: Tuple[Any, Any, int]) -> bool:
    seq = sc["seq"]
    n = len(seq)
    spec = list(spec)
    if slot in ("labile", "unknown", "nterm", "cterm"):
        sc.setdefault(slot, []).append(spec)
    elif slot == "internal0":
        sc.setdefault("internal", {}).setdefault("0", []).append(spec)
    elif slot == "internalL":
        sc.setdefault("internal", {}).setdefault(str(n - 1), []).append(spec)
    elif slot == "interval":
        a, b = (0, n) if n < 3 else (1, n - 1)
        ivs = sc.setdefault("intervals", [])
        if ivs:
            ivs[0][3].append(spec)
        else:
            ivs.append([a, b, n % 2 == 0, [spec]])
    elif slot in ("staticAA", "staticN", "staticC"):
        if spec[2] != 1:
            spec[2] = 1          # static rules do not take multipliers (parser rejects them)
        tgt = {"staticAA": [seq[0]] if n < 3 else [seq[0], seq[-1]], "staticN": ["N-Term"], "staticC": ["C-Term"]}[slot]
        sc.setdefault("static", []).append([tgt, [spec]])
    return True


CHARGE_CFGS: List[Tuple[Optional[int], Optional[str], int]] = []
for _c in range(-4, 7):
    CHARGE_CFGS.append((_c, None, (_c + 4) % 5))
CHARGE_CFGS.append((None, None, 0))
_IONS = ["H+", "Na+", "K+", "Li+", "Mg2+", "Ca2+", "Cl-", "I-", "e-"]
ADDUCT_CFGS: List[Tuple[Optional[int], Optional[str], int]] = []
for _i, _ion in enumerate(_IONS):
    for _j, _cnt in enumerate((-2, -1, 1, 2, 3)):
        txt = ("+" if _cnt > 0 else "-") + (str(abs(_cnt)) if abs(_cnt) != 1 else "") + _ion
        ADDUCT_CFGS.append((((_i + _j) % 6) + 1, txt, (_i + _j) % 5))
ADDUCT_CFGS += [(2, "+Na+,+H+", 0), (3, "+2Na+,+H+", 1), (1, "+2Na+,-H+", 2), (2, "+Mg2+,+e-,+K+", 0), (-1, "+Cl-", 0),
                (2, "+H+", 3), (2, "+2H+", 0)]


def scenarios(tier: str) -> List[Dict[str, Any]]:
    out: List[Dict[str, Any]] = []
    seqs = SEQS_Q if tier == "quick" else SEQS_T
    cfgs = CHARGE_CFGS + ADDUCT_CFGS
    k = 0

    def add(sc, mono, ion="p", precision=None, loss=True, in_ann=False):
        nonlocal k
        # k // 2: callers add the two mass modes back to back, both must meet the same charge/adduct configuration
        ch, ad, iso = cfgs[(k // 2) % len(cfgs)] if precision is None else CHARGE_CFGS[(k // 2) % len(CHARGE_CFGS)]
        k += 1
        sc = dict(sc)
        sc.update(charge=ch, adducts=ad, isotope=iso, mono=mono, ion=ion, precision=precision, loss=loss,
                  charge_in_annotation=in_ann and ch is not None and ch != 0, adducts_in_annotation=in_ann and ad is not None,
                  as_str=((k // 2) % 3 == 1),      # every third pair of scenarios hands the peptide over as a ProForma string
                  prior=((k // 2) % 3 == 2))       # every third pair: the same object has already answered another query
        out.append(sc)

    # (a) unmodified x every charge/adduct configuration x mono/avg
    for seq in seqs[:2]:
        for mono in (True, False):
            for ci in range(len(cfgs)):
                add({"seq": seq}, mono)
    # (b) each slot x each kind x multiplier, both modes
    vi = 0
    for seq in seqs:
        for slot in SLOTS:
            for kind, arg in KINDS:
                for mult in (1, 2, 3):
                    if False:
                        continue
                    for mono in (True, False):
                        sc = {"seq": seq}
                        _place(sc, slot, (kind, arg if kind != "num" else "v0", mult))
                        add(sc, mono, in_ann=(mult == 2))
    # (c) every pair of slots, kinds rotated, both modes; labile with fragment ion types (labile excluded)
    for seq in seqs[1:]:
        for (s1, s2) in itertools.combinations(SLOTS, 2):
            for r in range(len(KINDS)):
                k1 = KINDS[(r + SLOTS.index(s1)) % len(KINDS)]
                k2 = KINDS[(r * 2 + SLOTS.index(s2) + 1) % len(KINDS)]
                for mono in (True, False):
                    sc = {"seq": seq}
                    _place(sc, s1, (k1[0], k1[1] if k1[0] != "num" else "v0", 1 + r % 3))
                    _place(sc, s2, (k2[0], k2[1] if k2[0] != "num" else "v1", 1 + (r + 1) % 3))
                    add(sc, mono)
    # (d) ion types other than p: labile mods are not counted; precision variants (S6)
    for seq in seqs[1:3]:
        for ion in ("b", "y", "n"):
            for mono in (True, False):
                sc = {"seq": seq}
                _place(sc, "labile", ("num", "v0", 2))
                _place(sc, "internal0", ("num", "v1", 1))
                add(sc, mono, ion=ion)
        for prec in (0, 2, 6):
            for mono in (True, False):
                sc = {"seq": seq}
                _place(sc, "nterm", ("num", "v0", 1))
                _place(sc, "staticAA", ("formula", "C2H3", 1))
                add(sc, mono, precision=prec)
    # (e) all slots at once
    for seq in seqs[2:]:
        for mono in (True, False):
            sc = {"seq": seq}
            for i, slot in enumerate(SLOTS):
                kd = KINDS[i % len(KINDS)]
                _place(sc, slot, (kd[0], kd[1] if kd[0] != "num" else f"v{i}", 1 + i % 3))
            add(sc, mono)
    return out


# ------------------------------------------------------------------------------------------------ harness

def _call_library(sc, ann, loss, mass, mz):
    kw = dict(ion_type=sc["ion"], monoisotopic=sc["mono"], isotope=sc["isotope"], loss=loss)
    if not sc.get("charge_in_annotation"):
        kw["charge"] = sc["charge"]
    if sc["adducts"] and not sc.get("adducts_in_annotation"):
        kw["charge_adducts"] = sc["adducts"]
    # the same peptide object for both calls (or its ProForma string, the form most callers use)
    arg = ann.serialize() if sc.get("as_str") else ann
    if sc.get("prior"):
        # an earlier query on the same object (another ion type, the other mass mode, no charge): the sum of parts is claimed
        # for every call, whatever the object was asked before
        other = "n" if sc["ion"] == "p" else "p"
        mass(arg, ion_type=other, monoisotopic=not sc["mono"])
        mz(arg, ion_type="b" if sc["ion"] != "b" else "y", charge=1, monoisotopic=sc["mono"])
    m = mass(arg, precision=sc["precision"], **kw)
    z = mz(arg, precision=sc["precision"], **kw)
    return m, z


F_ADDUCT = "C02-F1"


def _oracle(sc, V, env, loss, excl=()):
    from .. import massmodel as MM
    mono, ion = sc["mono"], sc["ion"]
    charge = sc["charge"] or 0
    base = MM.residue_and_mod_mass_oracle(sc, V, env, mono, ion)
    if sc["adducts"]:
        chg = MM.adduct_mass_oracle(sc, env, mono, known_wrong=(F_ADDUCT in excl))
    elif ion in ("p", "n"):
        chg = env.proton * charge
    else:
        chg = env.proton * (charge - 1) + env.fi(ion, mono)
    return base + env.fa(ion, mono) + chg + env.neutron * sc["isotope"] + loss


def check_scenario(sc: Dict[str, Any], sym_tables: bool, excl=()) -> Obligation:
    import z3
    from .. import symreal as SR
    from .. import massmodel as MM
    from ..e2lib import run_e2
    from peptacular.mass_calc import mass, mz
    MM._capture_real()
    tol = TOL[sc["mono"]]
    slots = MM.value_slots(sc)

    def fn():
        env = MM.Env(sym=sym_tables)
        V = lambda name: SR.real(name)
        for s in slots:
            SR.assume(z3.And(SR.T(V(s)) >= -10000, SR.T(V(s)) <= 10000))
        loss = SR.real("loss") if sc["loss"] else 0.0
        if sc["loss"]:
            SR.assume(z3.And(SR.T(loss) >= -1000, SR.T(loss) <= 1000))
        with MM.symbolic_tables([sc], env, ions=(sc["ion"],)):
            if sym_tables:
                for nm, v in list(env._used.items()):
                    SR.assume(z3.And(SR.T(v) > 0, SR.T(v) < 1000))
            ann = MM.build(sc, V)
            got_m, got_z = _call_library(sc, ann, loss, mass, mz)
        if sym_tables:
            for nm, v in list(env._used.items()):
                SR.assume(z3.And(SR.T(v) > 0, SR.T(v) < 1000))
        want = _oracle(sc, V, env, loss, excl)
        charge = sc["charge"] or 0
        if sc["precision"] is not None:
            want_m = round(SR.const(want) if not SR.is_sym(want) else want, sc["precision"])
            p_m = SR.T(got_m) == SR.T(want_m)
            if charge != 0:
                wz = (SR.const(want) if not SR.is_sym(want) else want) / charge
                p_z = SR.T(got_z) == SR.T(round(wz, sc["precision"]))
            else:
                p_z = SR.T(got_z) == SR.T(want_m) if False else z3.BoolVal(True)
            return z3.And(p_m, p_z)
        p_m = SR.close(got_m, want, tol)
        if charge > 0:
            p_z = SR.close(got_z, SR.T(want) / charge, tol / charge)
        elif charge == 0:
            p_z = SR.close(got_z, want, tol)
        else:
            p_z = z3.BoolVal(True)
        return z3.And(p_m, p_z)

    def replay(model):
        return native_replay(sc, model, excl)

    oid = "mass/" + ("sym" if sym_tables else "pinned") + "/" + scenario_id(sc) + ("/minus-" + "-".join(excl) if excl else "")
    ob = run_e2(oid, "mass = residues + water + sum(mod*mult) + charge carriers + isotope*neutron + loss; mz = mass/charge",
                fn, functions=FUNCS, bounds="|mod values|<=1e4, |loss|<=1e3, table symbols in (0,1000)", replay=replay,
                budget_s=60)
    if ob.cex is not None:
        ob.cex["scenario"] = sc
        ob.cex["excl"] = list(excl)
    return ob


def scenario_id(sc) -> str:
    parts = [sc["seq"], "mono" if sc["mono"] else "avg", f"ion={sc['ion']}", f"z={sc['charge']}", f"iso={sc['isotope']}"] + (["str"] if sc.get("as_str") else []) + (["prior"] if sc.get("prior") else [])
    if sc["adducts"]:
        parts.append("ad=" + sc["adducts"])
    if sc["precision"] is not None:
        parts.append(f"prec={sc['precision']}")
    for slot in ("labile", "unknown", "nterm", "cterm"):
        if sc.get(slot):
            parts.append(slot + "=" + "+".join(f"{s[0]}:{s[1]}^{s[2]}" for s in sc[slot]))
    for k, specs in (sc.get("internal") or {}).items():
        parts.append(f"res{k}=" + "+".join(f"{s[0]}:{s[1]}^{s[2]}" for s in specs))
    for iv in sc.get("intervals") or []:
        parts.append(f"iv{iv[0]}-{iv[1]}{'?' if iv[2] else ''}=" + "+".join(f"{s[0]}:{s[1]}^{s[2]}" for s in iv[3] or []))
    for t, specs in sc.get("static") or []:
        parts.append("static@" + ",".join(t) + "=" + "+".join(f"{s[0]}:{s[1]}" for s in specs))
    if sc.get("charge_in_annotation") or sc.get("adducts_in_annotation"):
        parts.append("inann")
    return "/".join(parts)


_NATIVE = r'''
from vf import massmodel as MM
from vf.props import c02
def main(p):
    import peptacular as pt
    sc, model = p["sc"], p["model"]
    MM._capture_real()
    env = MM.Env(sym=False)
    V = lambda name: float(model.get(name, 0.0))
    loss = float(model.get("loss", 0.0)) if sc["loss"] else 0.0
    ann = MM.build(sc, V)
    text = ann.serialize()
    try:
        m, z = c02._call_library(sc, ann, loss, pt.mass, pt.mz)
    except Exception as e:
        return {"violated": True, "detail": f"{type(e).__name__}: {e}", "text": text}
    want = c02._oracle(sc, V, env, loss, tuple(p.get("excl", ())))
    want_kf = c02._oracle(sc, V, env, loss, (c02.F_ADDUCT,))
    tol = c02.TOL[sc["mono"]]
    if sc["precision"] is not None:
        tol = tol + 0.51 * 10 ** (-sc["precision"])
    bad = abs(m - want) > tol
    ch = sc["charge"] or 0
    badz = ch > 0 and abs(z - want / ch) > tol
    return {"violated": bool(bad or badz), "text": text, "mass": m, "want": want, "mz": z,
            "matches_known_adduct_formula": bool(abs(m - want_kf) <= tol),
            "detail": f"{text}: mass()={m!r} expected {want!r} (diff {m-want:+.6g}); mz()={z!r}"}
'''


def classify(sc, res) -> Optional[str]:
    """Known-finding signature: the failing scenario has an adduct whose count is not +1 and mass() equals the sum of
    parts computed with the library's per-adduct-kind electron arithmetic (mass_calc._parse_adduct_mass)."""
    from .. import massmodel as MM
    if sc["adducts"] and any(cnt != 1 and ion != "e-" for cnt, ion in MM.adduct_list(sc)) and res.get("matches_known_adduct_formula"):
        return F_ADDUCT
    return None


def native_replay(sc, model, excl=()):
    from ..e2lib import native_call
    res = native_call(_NATIVE, {"sc": sc, "model": model, "excl": list(excl)})
    site = classify(sc, res) if res["violated"] else None
    return res["violated"], res["detail"], site


def _decide(sc, excl=()):
    ob = check_scenario(sc, True, excl)
    if ob.status == CEX and ob.replayed is False:
        if sc["precision"] is None:
            # latent: holds only by coincidence of constants?  decide with the tables pinned to their real values
            ob2 = check_scenario(sc, False, excl)
            ob2.detail = "[sym-table counterexample did not reproduce with real tables; re-decided pinned] " + ob2.detail
            ob2.paths += ob.paths
            ob2.queries += ob.queries
            ob2.solver_s += ob.solver_s
            return ob2
        # S6: round() is an uninterpreted function, coarser than real rounding: a model that does not reproduce natively
        # is not a counterexample of the real code
        ob.status = INCONCLUSIVE
        ob.replayed = None
        ob.detail = "[S6 abstraction: UF-round counterexample not reproducible natively] " + ob.detail
    return ob


def _work(args):
    sc, known = args
    ob = _decide(sc)
    out = [ob]
    if ob.status == CEX and ob.replayed and ob.finding in known:
        out.append(_decide(sc, (ob.finding,)))
    return out


def run(tier: str, seed: int, only=None) -> Report:
    scs = scenarios(tier)
    if only:
        scs = [s for s in scs if only in scenario_id(s)]
    rep = Report(
        property_id=PID, tier=tier, seed=seed,
        explanation="The real mass()/mz() run natively on numbers carrying z3 Real terms (engine E2). Residue masses, water, "
                    "proton, neutron, electron, element masses (mono and average as independent symbols), Unimod/monosaccharide "
                    "entry masses, every numeric modification value and the neutral loss are solver variables; the annotation shape "
                    "(which slots are modified, spelling kind, multiplier, charge, isotope, adduct list, mode) is enumerated. Per "
                    "path one z3 query asks for values with |mass() - sum of parts| > tolerance.",
        functions=FUNCS,
        bounds="sequences " + ",".join(SEQS_Q if tier == "quick" else SEQS_T) + "; slots labile/unknown/N-term/C-term/residue/"
               "interval/static(residue,N-Term,C-Term) singly, in pairs and all at once; kinds numeric, Formula (incl. isotopes, "
               "negative counts), Glycan, Unimod name/accession; multipliers 1..3; charge -4..6 or None; isotope 0..4; 45 single "
               "adducts over the nine ions x counts {-2,-1,1,2,3} + combinations; mono/avg; precision None and {0,2,6} via S6; "
               "|values|<=1e4",
        outside="every Unimod entry (vocabulary sweep, no free variable); IEEE rounding (S5); sequences longer than the bound "
                "(mass is a fold over residues: one more residue adds one more summand of the same form)",
        assumptions=["S4 tables rebound to symbols for the call and restored", "S5 floats are reals", "S6 round = uninterpreted R",
                     "S7 token round trip for values embedded in static-rule strings",
                     "replay uses the real tables and binary64; tolerance 1e-5 (mono) / 2e-3 (avg)"],
    )
    known = tuple(f["id"] for f in load_known_findings(PID))
    with ProcessPoolExecutor(max_workers=NCPU, mp_context=mp.get_context("spawn")) as ex:
        res = list(ex.map(_work, [(s, known) for s in scs], chunksize=8))
    rep.obligations = [o for lst in res for o in lst] + ground_obligations()
    return rep


def ground_obligations() -> List[Obligation]:
    """E0: the library's tables against the independent NIST/CODATA table (no free variable; reported separately)."""
    import z3
    from .. import oracles as O
    from ..smt import prove, rat
    import peptacular.constants as K
    import peptacular.chem.chem_constants as CC
    out = []

    def ob(oid, lib_value, ref_value, tol):
        t0 = time.time()
        claim = z3.And(rat(lib_value) - rat(ref_value) <= rat(tol), rat(ref_value) - rat(lib_value) <= rat(tol))
        r, dt, _ = prove(claim)
        o = Obligation(oid="ground/" + oid, clause="table value agrees with independent NIST-derived reference", engine="E0 z3 QF_LRA",
                       paths=1, queries=1, solver_s=dt, wall_s=time.time() - t0)
        if r == "unsat":
            o.status = DISCHARGED
            o.detail = "unsat"
            o.witness = {"library": float(lib_value), "reference": float(ref_value), "tol": tol}
        elif r == "sat":
            o.status = CEX
            o.replayed = True
            o.cex = {"library": float(lib_value), "reference": float(ref_value), "tol": tol}
            o.detail = f"{oid}: library {float(lib_value)!r} vs reference {float(ref_value)!r}"
        return o

    for aa, f in O.RESIDUES.items():
        out.append(ob(f"residue/{aa}/mono", CC.MONOISOTOPIC_AA_MASSES[aa], O.formula_mass(f, True), 1e-5))
        out.append(ob(f"residue/{aa}/avg", CC.AVERAGE_AA_MASSES[aa], O.formula_mass(f, False), 2e-3))
    out.append(ob("water/mono", CC.MONOISOTOPIC_FRAGMENT_ADJUSTMENTS["p"], O.formula_mass("H2O", True), 1e-5))
    out.append(ob("water/avg", CC.AVERAGE_FRAGMENT_ADJUSTMENTS["p"], O.formula_mass("H2O", False), 2e-3))
    out.append(ob("proton", K.PROTON_MASS, O.PROTON, 1e-7))
    out.append(ob("neutron", K.NEUTRON_MASS, O.NEUTRON, 1e-7))
    out.append(ob("electron", K.ELECTRON_MASS, O.ELECTRON, 1e-9))
    out.append(ob("proton=H-e", K.PROTON_MASS, O.mono("H") - O.ELECTRON, 2e-8))
    for el in O.ISOTOPES:
        out.append(ob(f"element/{el}/mono", K.ISOTOPIC_ATOMIC_MASSES[el], O.mono(el), 1e-7))
        out.append(ob(f"element/{el}/avg", K.AVERAGE_ATOMIC_MASSES[el], O.avg(el), 1e-4))
    for lab in ("13C", "15N", "17O", "18O", "34S", "D", "T", "2H", "3H"):
        out.append(ob(f"isotope/{lab}", K.ISOTOPIC_ATOMIC_MASSES[lab], O.isotope(lab), 1e-7))
    return out


def replay(rec: dict) -> int:
    inp = rec["inputs"]
    if "scenario" not in inp:
        print("ground obligation:", rec.get("detail"))
        return 1
    violated, detail, site = native_replay(inp["scenario"], inp["model"], tuple(inp.get("excl", ())))
    print("replay:", detail)
    if violated:
        print(f"VIOLATION property={PID} replay=(reproduced)")
        return 1
    return 0
