"""C09 parser totality — E1 (CrossHair): strings over all of Unicode, single-edit mutants with a symbolic character."""
from __future__ import annotations

from typing import List

from ..ch import Cond, run_conds
from ..common import Report, load_known_findings

PID = "C09"
FUNCS = ["proforma_parser.parse", "_ProFormaParser.parse", "_ProFormaParser._parse_sequence_start", "_ProFormaParser._parse_sequence_middle",
         "_ProFormaParser._parse_sequence_end", "_ProFormaParser._parse_modification(s)", "_ProFormaParser._parse_integer",
         "proforma_dataclasses.Mod", "util.convert_type", "ProFormaAnnotation.serialize", "mass_calc.mass", "mass_calc.comp"]

SPECIALS = "[](){}<>?-+/^@#|:,. "
LETTERS = "ACDEFGHIKLMNPQRSTVWYBJOUXZ"

TEMPLATES_Q = ["PE[1]P", "[1]-PE/2", "<13C>P(E)[a]", "P+E//K"]     # the last one: three chains, both separators
TEMPLATES_T = ["PE[1]P", "[1]-PE/2", "<13C>P(E)[a]", "{Hex}[a]?PEP-[b]^2", "<[1]@C>C(?PE)[x|y#g1]/-2[+Na+]", "PE//KL+A[Formula:[13C2]H]"]


def classes():
    out = [(f"'{c}'" if c != "'" else '"\'"', f"c0 == {c!r}") for c in SPECIALS]
    out.append(("backslash", "c0 == chr(92)"))
    out.append(("digit", "len(c0) == 1 and c0.isdigit()"))
    out.append(("letter", f"len(c0) == 1 and c0 in {LETTERS!r}"))
    out.append(("other", f"len(c0) == 1 and c0 not in {SPECIALS + LETTERS!r} and c0 != chr(92) and not c0.isdigit()"))
    return out


def _inside_value(tpl: str, pos: int, kind: str) -> bool:
    """does a character replaced/inserted at `pos` end up inside a bracketed value, a multiplier or a charge?"""
    depth = 0
    for i, c in enumerate(tpl):
        if i == pos:
            break
        if c in "[{<":
            depth += 1
        elif c in "]}>":
            depth -= 1
    if depth > 0:
        return True
    before = tpl[:pos]
    # after '/' (charge) or '^' (multiplier) up to the next non-digit
    import re
    return bool(re.search(r"[/^][+-]?[0-9]*$", before))


def build(tier: str) -> List[Cond]:
    conds: List[Cond] = []
    t = 90 if tier == "quick" else 600
    rest_len = 1 if tier == "quick" else 2
    conds.append(Cond(oid="short/empty-or-one", clause="every string of length <=1 over all of Unicode parses or raises ValueError",
                      module="vf.h.c09", func="o_any", shape={}, sym=[("s", "str")], pre=["len(s) <= 1"], timeout=t, functions=FUNCS[:10],
                      bounds="len <= 1, all code points"))
    for name, pre in classes():
        conds.append(Cond(oid=f"short/first={name}/rest<={rest_len}", clause="every string parses or raises ValueError; an accepted one serializes",
                          module="vf.h.c09", func="o_short", shape={}, sym=[("c0", "str"), ("rest", "str")],
                          pre=[pre, f"len(rest) <= {rest_len}"] + ([f"len(rest) == {rest_len}"] if False else []), timeout=t, functions=FUNCS[:10],
                          bounds=f"first character in class {name}, then <= {rest_len} arbitrary Unicode characters"))
    templates = TEMPLATES_Q if tier == "quick" else TEMPLATES_T
    for tpl in templates:
        conds.append(Cond(oid=f"template/{tpl}", clause="the template itself is valid", module="vf.h.c09", func="o_valid", shape=dict(template=tpl),
                          sym=[("dummy", "bool")], pre=[], timeout=t, functions=FUNCS[:10], bounds="concrete", twin=True))
        for pos in range(len(tpl) + 1):
            for kind in ("replace", "insert", "delete", "duplicate"):
                if kind != "insert" and pos >= len(tpl):
                    continue
                if kind in ("delete", "duplicate"):
                    sym, pre = [("ch", "str")], ["ch == ''"]
                else:
                    sym, pre = [("ch", "str")], ["len(ch) == 1"]
                inside = _inside_value(tpl, pos, kind)
                if inside and kind in ("replace", "insert"):
                    # the character lands in a modification value / charge: int()/float() of the text is a realisation point.
                    # ASCII: real conversion, CrossHair enumerates the 128 values; non-ASCII: stub S8 (arbitrary int/float/text)
                    for lo in (0, 32, 64, 96):
                        conds.append(Cond(oid=f"edit/{tpl}/{kind}@{pos}/ascii{lo}-{lo+31}", clause="single-edit mutant of a valid string parses or raises ValueError",
                                          module="vf.h.c09", func="o_edit", shape=dict(template=tpl, pos=pos, kind=kind), sym=sym,
                                          pre=pre + [f"{lo} <= ord(ch) < {lo + 32}"], timeout=t * 2, functions=FUNCS[:10],
                                          bounds=f"template {tpl!r}, position {pos}, edited-in character over ASCII {lo}..{lo+31} (inside a value)"))
                    conds.append(Cond(oid=f"edit/{tpl}/{kind}@{pos}/non-ascii", clause="single-edit mutant of a valid string parses or raises ValueError",
                                      module="vf.h.c09", func="o_edit_nonascii", shape=dict(template=tpl, pos=pos, kind=kind),
                                      sym=sym + [("choice", "int"), ("ival", "int")], pre=pre + ["ord(ch) >= 128", "0 <= choice <= 2", "ival in (-3, 0, 7)"], timeout=t,
                                      functions=FUNCS[:10], bounds=f"template {tpl!r}, position {pos}, edited-in character over non-ASCII Unicode, value conversion by stub S8",
                                      approx=True))
                    continue
                conds.append(Cond(oid=f"edit/{tpl}/{kind}@{pos}", clause="single-edit mutant of a valid string parses or raises ValueError",
                                  module="vf.h.c09", func="o_edit", shape=dict(template=tpl, pos=pos, kind=kind), sym=sym, pre=pre, timeout=t,
                                  functions=FUNCS[:10], bounds=f"template {tpl!r}, position {pos}, edited-in character over all of Unicode"))
    # valid strings continued by one or two characters of the notation alphabet (multipliers, charges, brackets opened late ...)
    NOTATION = "[](){}<>?-+/^@#|:,.0123456789P"
    for tpl in (["PE/2[+Na+]", "{a}[b]?[c]-P(E)[d]-[e]", "<13C><[1]@P>P", "P+E"] if tier == "quick" else templates + ["PE/2[+Na+]", "{a}[b]?[c]-P(E)[d]-[e]", "<13C><[1]@P>P", "P+E"]):
        for first in NOTATION[:20] + "2P":
            conds.append(Cond(oid=f"suffix/{tpl}/first={first}", clause="a valid string continued by up to two notation characters parses or raises ValueError",
                              module="vf.h.c09", func="o_suffix", shape=dict(template=tpl), sym=[("tail", "str")],
                              pre=["1 <= len(tail) <= 2", f"tail[0] == {first!r}", f"all(c in {NOTATION!r} for c in tail)"], timeout=t,
                              functions=FUNCS[:10], bounds=f"template {tpl!r} + {first!r} + at most one more character of the 31-character notation alphabet"))
    for tail in ("", "q", "zx"):
        # static rules reach the regex C extension (condense_static_mods): the value is part of the shape there
        conds.append(Cond(oid=f"deferred/static/tail={tail or '-'}", clause="unresolvable modification parses; mass/comp raise a ValueError-family error",
                          module="vf.h.c09", func="o_deferred", shape=dict(slot="static", tail=tail), sym=[("dummy", "bool")], pre=[], timeout=t,
                          functions=FUNCS, bounds="concrete value (regex is a realisation point)"))
    for form in ("", "|", "xq|", "|xq", "xq||zz", "xq#g1", "Obs:xq", "U:xq", "xq|INFO:a", "INFO:a|xq"):
        conds.append(Cond(oid=f"deferred/static/value={form or '-'}", clause="unresolvable modification parses; mass/comp raise a ValueError-family error",
                          module="vf.h.c09", func="o_deferred", shape=dict(slot="static", tail="", form=form), sym=[("dummy", "bool")], pre=[], timeout=t,
                          functions=FUNCS, bounds="concrete value (regex is a realisation point)"))
    for slot in ("static+ok", "ok+static", "staticN+ok", "ok+staticC", "static-multi"):
        for tail in ("", "q"):
            conds.append(Cond(oid=f"deferred/{slot}/tail={tail or '-'}", clause="an unresolvable modification next to a resolvable one still makes mass/comp raise",
                              module="vf.h.c09", func="o_deferred", shape=dict(slot=slot, tail=tail), sym=[("dummy", "bool")], pre=[], timeout=t,
                              functions=FUNCS, bounds="concrete value (static rules reach the regex C extension)"))
    for slot in ("res+ok", "ok+res"):
        conds.append(Cond(oid=f"deferred/{slot}", clause="an unresolvable modification next to a resolvable one still makes mass/comp raise",
                          module="vf.h.c09", func="o_deferred", shape=dict(slot=slot), sym=[("tail", "str")],
                          pre=["len(tail) <= 1", "all(c in 'qxz' for c in tail)"], timeout=t, functions=FUNCS, bounds="value 'xq'+tail"))
    # the corpus of unresolvable / malformed values around a symbolic tail: the empty value, empty and unknown '|' alternatives,
    # tagged and prefixed unknown names
    FORMS = ["%s", "%s|", "|%s", "xq%s|", "xq|%s", "xq%s#g1", "Obs:xq%s", "U:xq%s"]
    for si, slot in enumerate(("res", "nterm", "cterm", "labile", "unknown", "interval")):
        forms = FORMS if (tier == "thorough" or slot == "res") else [FORMS[(si * 3 + j) % len(FORMS)] for j in range(3)]
        for form in forms:
            conds.append(Cond(oid=f"deferred/{slot}/form={form}", clause="unresolvable modification parses; mass/comp raise a ValueError-family error",
                              module="vf.h.c09", func="o_deferred", shape=dict(slot=slot, form=form), sym=[("tail", "str")],
                              pre=["len(tail) <= %d" % (1 if tier == "quick" else 2), "all(c in 'qxz' for c in tail)"], timeout=t,
                              functions=FUNCS, bounds=f"value {form!r} with %s := tail over {{q,x,z}} (incl. the empty tail), absent from every vocabulary"))
    for slot in ("res", "nterm", "cterm", "labile", "unknown", "interval"):
        conds.append(Cond(oid=f"deferred/{slot}", clause="unresolvable modification parses; mass/comp raise a ValueError-family error",
                          module="vf.h.c09", func="o_deferred", shape=dict(slot=slot), sym=[("tail", "str")],
                          pre=["len(tail) <= %d" % (1 if tier == "quick" else 2), "all(c in 'qxz' for c in tail)"], timeout=t,
                          functions=FUNCS, bounds="value 'xq'+tail, tail over {q,x,z}, absent from every vocabulary"))
    return conds


def run(tier: str, seed: int, only=None) -> Report:
    from ..ch import tier_conds
    conds = tier_conds(build, tier, cap=1000)
    if only:
        conds = [c for c in conds if only in c.oid]
    rep = Report(
        property_id=PID, tier=tier, seed=seed,
        explanation="parse() runs under CrossHair on symbolic strings: every string of length <=2 (quick) / <=3 (thorough) over all of "
                    "Unicode, split into one condition per class of first character, and every single replace/insert (symbolic character "
                    "over all code points) or delete/duplicate at every position of valid templates. On all paths the call must either "
                    "return an annotation that serializes to a str or raise a ValueError. Deferred validation: an unresolvable value at "
                    "every modification position parses and mass()/comp() raise a ValueError subclass.",
        functions=FUNCS,
        bounds="(i) len<=2 / <=3 all Unicode; (iii) templates " + ", ".join(repr(x) for x in (TEMPLATES_Q if tier == "quick" else TEMPLATES_T)) +
               " x every position x 4 edit kinds; (iv) 7 modification positions x values 'xq'+{q,x,z}^<=1/2 and the corpus forms (empty value, empty/unknown '|' alternatives, '#' tags, Obs:/U: prefixes) around the same symbolic tail",
        outside="5-token exhaustiveness, random 40-token strings (enumeration/sampling, not solver work); hangs are bounded by CrossHair's "
                "per-path timeout: a path that times out makes the condition inconclusive",
        assumptions=["S1 AMINO_ACIDS set -> str of the same 26 letters", "S2 ProFormaFormatError.__init__ skips message formatting",
                     "int()/float() of symbolic text and regex are realisation points (CrossHair enumerates)"],
    )
    rep.obligations = run_conds(conds, PID, known=load_known_findings(PID))
    return rep


def replay(rec: dict) -> int:
    from ..ch import replay_native
    inp = rec["inputs"]
    mod, func = inp["call"].rsplit(".", 1)
    r = replay_native(mod, func, {}, {"kwargs": inp["kwargs"]}, [])
    print("replay:", r.get("ok"), r.get("exc") or r.get("last"))
    if r.get("ok") is False:
        print(f"VIOLATION property={PID} replay=(reproduced)")
        return 1
    return 0
