"""C07 digested peptides keep modifications, mass and place — E1 (structure) + E2 (mass additivity over cuts)."""
from __future__ import annotations

import itertools
import multiprocessing as mp
from concurrent.futures import ProcessPoolExecutor
from typing import Any, Dict, List

from ..ch import Cond, run_conds
from ..common import CEX, DISCHARGED, INCONCLUSIVE, NCPU, Obligation, Report, load_known_findings

PID = "C07"
FUNCS = ["digestion._return_digested_sequences", "digestion.digest", "digestion.get_left/right/semi/non_enzymatic_sequences", "ProFormaAnnotation.slice",
         "ProFormaAnnotation.serialize", "proforma_parser.parse", "sequence_funcs.find_subsequence_indices", "mass_calc.mass"]


def _g(glob) -> str:
    return glob if isinstance(glob, str) else str(int(glob))


def e1_conds(tier: str) -> List[Cond]:
    conds: List[Cond] = []
    t = 120 if tier == "quick" else 600
    seqs = ["TI", "PEP", "AAA"] if tier == "quick" else ["TI", "PEP", "AAA", "KPEK", "AKAKA"]
    for seq in seqs:
        L = len(seq)
        for (npos, nint) in ((0, 0), (1, 0), (2, 0), (0, 1), (1, 1)):
            if npos > L:
                continue
            for glob in (False, True):
                if tier == "quick" and L >= 3 and (npos, nint) in ((2, 0), (1, 1)):
                    continue
                sym = [("s", "int"), ("e", "int")] + [(f"p{i}", "int") for i in range(npos)] + ([("a0", "int"), ("b0", "int")] if nint else [])
                pre = [f"0 <= s < e <= {L}"] + [f"0 <= p{i} < {L}" for i in range(npos)]
                if nint:
                    pre += [f"0 <= a0 < b0 <= {L}", "(s <= a0 or s >= b0) and (e <= a0 or e >= b0)"]
                splits = [None] if (npos + nint < 2 or L < 3) else list(range(L))
                for sp in splits:
                    conds.append(Cond(oid=f"return-types/{seq}/mods={npos}/intervals={nint}/glob={_g(glob)}" + (f"/s={sp}" if sp is not None else ""),
                                      clause="all five return types describe the slice of the span; string re-parses to the annotation; found again at offset s",
                                      module="vf.h.c07", func="o_return_types", shape=dict(seq=seq, npos=npos, glob=glob, nint=nint), sym=sym,
                                      pre=pre + ([f"s == {sp}"] if sp is not None else []), timeout=t, functions=FUNCS,
                                      bounds=f"len {L}; span, modification positions, interval bounds symbolic (interval not straddling the span ends)"))
        # exactly one global / terminal kind and nothing else (no residue modification): the "unmodified protein" shortcuts of
        # digest()/slice() must not take such a protein for a bare one
        from ..h.c11 import GLOB_KINDS
        if seq in seqs[:2]:
            for kind in GLOB_KINDS:
                conds.append(Cond(oid=f"return-types/{seq}/mods=0/intervals=0/glob={kind}",
                                  clause="all five return types describe the slice of the span; string re-parses to the annotation; found again at offset s",
                                  module="vf.h.c07", func="o_return_types", shape=dict(seq=seq, npos=0, glob=kind, nint=0), sym=[("s", "int"), ("e", "int")],
                                  pre=[f"0 <= s < e <= {L}"], timeout=t, functions=FUNCS, bounds=f"len {L}; span symbolic; the protein's only annotation is its {kind}"))
                for rt in ("str", "annotation"):
                    conds.append(Cond(oid=f"digest/{seq}/sites=1/{rt}/mods=0/glob={kind}",
                                      clause="digest(): each returned peptide is the slice of its span, in span order, for every return type",
                                      module="vf.h.c07", func="o_digest", shape=dict(seq=seq, sites=(1,), npos=0, glob=kind, rt=rt),
                                      sym=[("mc", "int"), ("semi", "bool")], pre=["0 <= mc <= 3"], timeout=t, functions=FUNCS,
                                      bounds=f"len {L}; one cleavage site; the protein's only annotation is its {kind}"))
            for wi, which in enumerate(("left", "right", "semi", "non")):
                for kind in (GLOB_KINDS if tier == "thorough" else GLOB_KINDS[wi::4]):
                    conds.append(Cond(oid=f"generators/{seq}/{which}/glob={kind}", clause="semi-/non-enzymatic generators: peptides are slices of their spans",
                                      module="vf.h.c07", func="o_generators", shape=dict(seq=seq, npos=0, glob=kind, which=which),
                                      sym=[("mn", "int"), ("mx", "int")], pre=["1 <= mn", "1 <= mx"], timeout=t, functions=FUNCS,
                                      bounds=f"len {L}; min_len, max_len unbounded; the protein's only annotation is its {kind}"))
        # digest end to end with the site stub
        layouts = [tuple(c) for r in range(0, L) for c in itertools.combinations(range(1, L), r)]
        for sites in layouts:
            for rt in ("str", "annotation", "str-span", "annotation-span"):
                if tier == "quick" and rt in ("str-span", "annotation") and len(sites) != 1:
                    continue
                for (npos, glob) in ((1, True), (2, False)):
                    if npos > L or (tier == "quick" and L >= 3 and npos == 2):
                        continue
                    conds.append(Cond(oid=f"digest/{seq}/sites={','.join(map(str, sites)) or '-'}/{rt}/mods={npos}/glob={_g(glob)}",
                                      clause="digest(): each returned peptide is the slice of its span, in span order, for every return type",
                                      module="vf.h.c07", func="o_digest", shape=dict(seq=seq, sites=sites, npos=npos, glob=glob, rt=rt),
                                      sym=[("mc", "int"), ("semi", "bool")] + [(f"p{i}", "int") for i in range(npos)],
                                      pre=["0 <= mc <= 3"] + [f"0 <= p{i} < {L}" for i in range(npos)], timeout=t, functions=FUNCS,
                                      bounds=f"len {L}; site layout fixed (S3); missed cleavages 0..3, semi, modification positions symbolic"))
        for which in ("left", "right", "semi", "non"):
            conds.append(Cond(oid=f"generators/{seq}/{which}", clause="semi-/non-enzymatic generators: peptides are slices of their spans",
                              module="vf.h.c07", func="o_generators", shape=dict(seq=seq, npos=1, glob=True, which=which),
                              sym=[("mn", "int"), ("mx", "int"), ("p0", "int")], pre=["1 <= mn", "1 <= mx", f"0 <= p0 < {L}"], timeout=t, functions=FUNCS,
                              bounds=f"len {L}; min_len, max_len unbounded"))
    return conds


# ------------------------------------------------------------------------------------------------ E2: mass additivity

def e2_scenarios(tier: str):
    seqs = ["PEK", "KCEK"] if tier == "quick" else ["PEK", "KCEK", "MKCEKS"]
    out = []
    for seq in seqs:
        n = len(seq)
        for r in range(0, n):
            for cuts in itertools.combinations(range(1, n), r):
                for feat in ([], ["res"], ["nterm", "cterm"], ["res", "staticAA"], ["res", "nterm", "cterm", "staticAA", "label"], ["interval"],
                             ["staticAA"], ["label"], ["nterm"], ["cterm"]):     # the last four: that annotation alone
                    if "interval" in feat and (n < 3):
                        continue
                    for mono in (True, False):
                        out.append({"seq": seq, "cuts": list(cuts), "feat": feat, "mono": mono})
    if tier == "quick":
        out = out[::2]
    return out


def _mm(sc):
    seq = sc["seq"]
    n = len(seq)
    m: Dict[str, Any] = {"seq": seq}
    for f in sc["feat"]:
        if f == "res":
            m["internal"] = {"0": [["num", "v0", 2]], str(n - 1): [["formula", "C2H3", 1]]}
        elif f == "nterm":
            m["nterm"] = [["num", "v1", 1]]
        elif f == "cterm":
            m["cterm"] = [["unimod", "Acetyl", 1]]
        elif f == "staticAA":
            m["static"] = [[[seq[0]], [["num", "v2", 1]]]]
        elif f == "label":
            m["isotope_labels"] = ["13C"]
        elif f == "interval":
            # an interval that does not straddle a cut: inside the first piece
            first_end = (sc["cuts"] + [n])[0]
            m["intervals"] = [[0, first_end, False, [["num", "v3", 1]]]]
    return m


def check_mass(sc) -> Obligation:
    import z3
    from .. import symreal as SR
    from .. import massmodel as MM
    from ..e2lib import run_e2
    import peptacular.digestion as DG
    from peptacular.mass_calc import mass
    m = _mm(sc)
    slots = MM.value_slots(m)
    n = len(sc["seq"])
    label = bool(m.get("isotope_labels"))

    def fn():
        env = MM.Env(sym=True, real_parts=("aa", "fa", "fi", "particles", "el", "um", "gl") if label else ())
        V = lambda name: SR.real(name)
        for s_ in slots:
            SR.assume(z3.And(SR.T(V(s_)) >= -10000, SR.T(V(s_)) <= 10000))
        with MM.symbolic_tables([m], env, ions=("p",)):
            for nm, v in list(env.symbols.items()):
                SR.assume(z3.And(SR.T(v) > 0, SR.T(v) < 1000))
            a = MM.build(m, V)
            # one protein object, used the way a caller would: weighed, digested, weighed again; every peptide weighed twice
            whole = mass(a, monoisotopic=sc["mono"])
            orig = DG.get_cleavage_sites
            DG.get_cleavage_sites = lambda sequence, enzyme_regex: iter(sc["cuts"])
            try:
                pieces = list(DG.digest(a, "R", 0, False, return_type="annotation"))
            finally:
                DG.get_cleavage_sites = orig
            if len(pieces) != len(sc["cuts"]) + 1:
                return False
            total = 0
            again = 0
            for p in pieces:
                total = total + mass(p, monoisotopic=sc["mono"])
            for p in pieces:
                again = again + mass(p, monoisotopic=sc["mono"])
            whole2 = mass(a, monoisotopic=sc["mono"])
            water = env.fa("p", sc["mono"])
        return z3.And(SR.close(total, SR.T(whole) + SR.T(water) * len(sc["cuts"]), 1e-6), SR.close(whole2, whole, 1e-9), SR.close(again, total, 1e-9))

    def replay(model):
        from ..e2lib import native_call
        code = r"""
from vf import massmodel as MM
from vf.props import c07
def main(p):
    import peptacular as pt
    import peptacular.digestion as DG
    import peptacular.chem.chem_constants as CC
    sc, model = p["sc"], p["model"]
    a = MM.build(c07._mm(sc), lambda name: float(model.get(name, 1.5)))
    DG.get_cleavage_sites = lambda sequence, enzyme_regex: iter(sc["cuts"])
    text = a.serialize()
    whole = pt.mass(a, monoisotopic=sc["mono"])
    pieces = list(DG.digest(a, "R", 0, False, return_type="annotation"))
    total = sum(pt.mass(x, monoisotopic=sc["mono"]) for x in pieces)
    again = sum(pt.mass(x, monoisotopic=sc["mono"]) for x in pieces)
    whole2 = pt.mass(a, monoisotopic=sc["mono"])
    water = (CC.MONOISOTOPIC_FRAGMENT_ADJUSTMENTS if sc["mono"] else CC.AVERAGE_FRAGMENT_ADJUSTMENTS)["p"]
    d = total - whole - water * len(sc["cuts"])
    return {"violated": abs(d) > 1e-5 or abs(whole2 - whole) > 1e-9 or abs(again - total) > 1e-9,
            "detail": f"{text!r} cut at {sc['cuts']}: pieces {[x.serialize() for x in pieces]} sum {total!r} (weighed again: {again!r}) vs protein {whole!r} (after digesting: {whole2!r}) + {len(sc['cuts'])} water (diff {d:+.6g})"}
"""
        res = native_call(code, {"sc": sc, "model": model})
        return res["violated"], res["detail"], None

    ob = run_e2("mass-sum/" + "/".join([sc["seq"], "cuts=" + (",".join(map(str, sc["cuts"])) or "-"), "feat=" + ("+".join(sc["feat"]) or "-"), "mono" if sc["mono"] else "avg"]),
                "masses of the zero-missed-cleavage peptides sum to the protein mass plus one water per cut", fn, functions=FUNCS,
                bounds="residue masses, water, modification values symbolic; cut layout fixed", replay=replay, budget_s=60)
    if ob.cex is not None:
        ob.cex["scenario"] = sc
    return ob


def _work(sc):
    ob = check_mass(sc)
    if ob.status == CEX and ob.replayed is False:
        ob.status = INCONCLUSIVE
        ob.replayed = None
        ob.detail = "[abstract counterexample not reproducible natively] " + ob.detail
    return ob


def run(tier: str, seed: int, only=None) -> Report:
    from ..ch import tier_conds
    conds = tier_conds(e1_conds, tier, cap=300)
    if only:
        conds = [c for c in conds if only in c.oid]
    rep = Report(
        property_id=PID, tier=tier, seed=seed,
        explanation="E1: _return_digested_sequences, digest() (site finder stubbed) and the four semi-/non-enzymatic generators run under CrossHair "
                    "on a protein annotation with symbolic modification positions, interval bounds and a symbolic span / missed-cleavage "
                    "count; each returned peptide, in every return type, must be exactly the slice the property defines (residues s..e-1, "
                    "modifications re-indexed, terminal modifications iff the terminus is contained, globals kept), strings must re-parse "
                    "to the annotations, and the peptide must be found again at offset s. E2: for every cut layout the masses of the "
                    "zero-missed-cleavage pieces must sum to the protein mass plus one water per cut for all residue masses and modification values.",
        functions=FUNCS, bounds="E1: proteins of length <=3 (quick) / <=4 (thorough), <=2 residue modifications, one non-straddling interval, globals on/off; "
                                "E2: proteins of length 3-4 (6 thorough), all cut layouts, residue/terminal/static-residue/label/interval modifications",
        outside="the regex site finder (S3); labile, unknown-position and static N-Term/C-Term modifications in the mass-sum clause (each piece "
                "carries them, as the property's second sentence requires, so the sum counts them once per piece)",
        assumptions=["S1, S3, S3r, S9", "S4, S5 for the E2 clause"],
    )
    obs = run_conds(conds, PID, known=load_known_findings(PID))
    if not only or "mass" in only:
        with ProcessPoolExecutor(max_workers=NCPU, mp_context=mp.get_context("spawn")) as ex:
            obs += list(ex.map(_work, e2_scenarios(tier), chunksize=4))
    rep.obligations = obs
    return rep


def replay(rec: dict) -> int:
    from ..ch import replay_native
    inp = rec["inputs"]
    if "call" not in inp:
        print("E2 record:", rec.get("detail"))
        return 1
    mod, func = inp["call"].rsplit(".", 1)
    r = replay_native(mod, func, {}, {"kwargs": inp["kwargs"]}, [])
    print("replay:", r.get("ok"), r.get("exc") or r.get("last"))
    if r.get("ok") is False:
        print(f"VIOLATION property={PID} replay=(reproduced)")
        return 1
    return 0
