"""C12 global modification rules = explicit per-residue form; isotope labels shift by atom count — E2 (symreal)."""
from __future__ import annotations

import itertools
import multiprocessing as mp
from concurrent.futures import ProcessPoolExecutor
from typing import Any, Dict, List, Optional, Tuple

from ..common import CEX, DISCHARGED, INCONCLUSIVE, NCPU, Obligation, Report, load_known_findings

PID = "C12"
FUNCS = ["mass_calc.mass", "mass_calc.comp_mass", "chem_calc._sequence_comp", "chem_calc.apply_isotope_mods_to_composition",
         "proforma_parser.parse_static_mods", "proforma_parser.parse_isotope_mods", "ProFormaAnnotation.condense_static_mods",
         "sequence_funcs.condense_static_mods", "sequence_funcs.count_residues", "fragmentation.fragment", "chem_util.chem_mass"]
F_FRAG_TERM = "C12-F1"      # same site as C04-F2

IONS = ("p", "b", "y", "c", "z")


# ------------------------------------------------------------------------------------------------ static rules

def static_scenarios(tier: str) -> List[Dict[str, Any]]:
    # since session 5 the quick tier runs what used to be the thorough scope (seconds); thorough adds longer peptides
    seqs = ["P", "PEP", "KCMK", "CCKACK", "MKKMKKM"] + (["STSTKSTS", "ACDEFGHIKLA", "MNPQRSTVWYUOM"] if tier == "thorough" else [])
    kinds = [("num", "v0"), ("formula", "C2H3"), ("unimod", "Acetyl"), ("glycan", "Hex2")]
    out = []
    k = 0
    for seq in seqs:
        letters = sorted(set(seq), key=seq.index)
        target_sets = [[letters[0]], ["N-Term"], ["C-Term"], [letters[-1], "N-Term"], [letters[0], "C-Term", "N-Term"]]
        if len(letters) > 1:
            target_sets.append([letters[0], letters[1]])
        for tg in target_sets:
            for (k1, a1) in kinds:
                for two in (False, True):
                    for pre in (False, True):
                        for mono in (True, False):
                            specs = [[k1, a1, 1]]
                            if two:
                                k2, a2 = kinds[(kinds.index((k1, a1)) + 1) % len(kinds)]
                                specs.append([k2, a2 if k2 != "num" else "v1", 1])
                            sc = {"seq": seq, "static": [[tg, specs]], "mono": mono}
                            if pre:
                                sc["internal"] = {"0": [["num", "v2", 2]]}
                                sc["nterm"] = [["num", "v3", 1]]
                            if k % 5 == 0:      # several rules at once
                                sc["static"].append([[seq[-1]], [["num", "v4", 1]]])
                            out.append(sc)
                            k += 1
    return out


def explicit_form(sc) -> Dict[str, Any]:
    """the same peptide with each rule's modifications written on every target (hand-built, independent of the library)"""
    seq = sc["seq"]
    ex = {"seq": seq, "mono": sc["mono"]}
    internal = {k: list(v) for k, v in (sc.get("internal") or {}).items()}
    nterm = list(sc.get("nterm") or [])
    cterm = list(sc.get("cterm") or [])
    for targets, specs in sc["static"]:
        for t in targets:
            if t == "N-Term":
                nterm += [list(s) for s in specs]
            elif t == "C-Term":
                cterm += [list(s) for s in specs]
            else:
                for i, c in enumerate(seq):
                    if c == t:
                        internal.setdefault(str(i), []).extend([list(s) for s in specs])
    if internal:
        ex["internal"] = internal
    if nterm:
        ex["nterm"] = nterm
    if cterm:
        ex["cterm"] = cterm
    return ex


def sid(sc) -> str:
    return "/".join([sc["seq"], "mono" if sc["mono"] else "avg",
                     "rules=" + ";".join(",".join(t) + ":" + "+".join(f"{s[0]}:{s[1]}" for s in sp) for t, sp in sc["static"]),
                     "pre=" + ("1" if sc.get("internal") else "0")])


def check_static(sc, excl=()) -> Obligation:
    import z3
    from .. import symreal as SR
    from .. import massmodel as MM
    from ..e2lib import run_e2
    from ..h import dumps as D
    from peptacular.mass_calc import mass, comp_mass
    from peptacular.fragmentation import fragment
    from peptacular.sequence.sequence_funcs import count_residues, condense_static_mods as sf_condense
    ex = explicit_form(sc)
    slots = sorted(set(MM.value_slots(sc)) | set(MM.value_slots(ex)))
    has_term = any(t in ("N-Term", "C-Term") for tg, _ in sc["static"] for t in tg)

    def fn():
        env = MM.Env(sym=True)
        V = lambda name: SR.real(name)
        for s_ in slots:
            SR.assume(z3.And(SR.T(V(s_)) >= -10000, SR.T(V(s_)) <= 10000))
        props = []
        with MM.symbolic_tables([sc, ex], env, ions=IONS):
            for nm, v in list(env.symbols.items()):
                SR.assume(z3.And(SR.T(v) > 0, SR.T(v) < 1000))
            rule = MM.build(sc, V)
            expl = MM.build(ex, V)
            cond = rule.condense_static_mods(inplace=False)
            # structure: condensing produces exactly the explicit form
            dr = _symdump(cond)
            de = _symdump(expl)
            if dr != de:
                fn.why = "condense_static_mods differs from the explicit form: " + D.diff(dr, de)
                return False
            text_c = sf_condense(rule)
            if text_c != expl.serialize():
                fn.why = f"sequence_funcs.condense_static_mods text {text_c!r} != {expl.serialize()!r}"
                return False
            for ion in IONS:
                for z in ((0, 1, 2) if ion == "p" else (1, 2)):
                    a = mass(rule, charge=z, ion_type=ion, monoisotopic=sc["mono"])
                    b = mass(expl, charge=z, ion_type=ion, monoisotopic=sc["mono"])
                    c = mass(cond, charge=z, ion_type=ion, monoisotopic=sc["mono"])
                    props.append(SR.close(a, b, 1e-9))
                    props.append(SR.close(c, b, 1e-9))
                    ca, da = comp_mass(rule, ion_type=ion, charge=z)
                    cb, db = comp_mass(expl, ion_type=ion, charge=z)
                    if sorted(ca.items()) != sorted(cb.items()):
                        fn.why = f"composition differs for ion {ion}: {ca} vs {cb}"
                        return False
                    props.append(SR.T(da) == SR.T(db))
            if count_residues(rule) != count_residues(expl):
                fn.why = "count_residues differs"
                return False
            if not (F_FRAG_TERM in excl and has_term):
                fa = fragment(rule, ["b", "y", "c", "z"], [1, 2], monoisotopic=sc["mono"])
                fb = fragment(expl, ["b", "y", "c", "z"], [1, 2], monoisotopic=sc["mono"])
                if [(f.ion_type, f.start, f.end, f.charge) for f in fa] != [(f.ion_type, f.start, f.end, f.charge) for f in fb]:
                    fn.why = "fragment lists differ in structure"
                    return False
                for x, y in zip(fa, fb):
                    props.append(SR.close(x.mass, y.mass, 1e-9))
        return z3.And(*props)

    fn.why = ""

    def replay(model):
        return native_static(sc, model, excl)

    ob = run_e2("static/" + sid(sc) + ("/minus-" + "-".join(excl) if excl else ""),
                "rule form == condensed form == explicit form in mass, composition, fragment ions, residue counts; condensing yields the explicit form",
                fn, functions=FUNCS, bounds="|mod values|<=1e4; table symbols in (0,1000)", replay=replay, budget_s=120)
    if ob.cex is not None:
        ob.cex.update(scenario=sc, excl=list(excl), kind="static", structural=fn.why)
    return ob


def _symdump(a):
    """field dump in which symbolic values are replaced by their token text (comparable with ==)"""
    from ..h import dumps as D
    from .. import symreal as SR

    def tok(x):
        if isinstance(x, list):
            return [tok(y) for y in x]
        if isinstance(x, tuple):
            return tuple(tok(y) for y in x)
        if SR.is_sym(x):
            return str(x)
        return x
    return D.norm_empty(tuple(tok(f) for f in D.dump(a)))


_NATIVE_STATIC = r'''
from vf import massmodel as MM
from vf.props import c12
from vf.h import dumps as D
def main(p):
    import warnings; warnings.simplefilter("ignore")
    import peptacular as pt
    from peptacular.mass_calc import comp_mass
    from peptacular.fragmentation import fragment
    from peptacular.sequence.sequence_funcs import count_residues, condense_static_mods as sf_condense
    sc, model, excl = p["sc"], p["model"], tuple(p["excl"])
    ex = c12.explicit_form(sc)
    V = lambda name: float(model.get(name, 0.0))
    rule, expl = MM.build(sc, V), MM.build(ex, V)
    problems, sites = [], set()
    cond = rule.condense_static_mods(inplace=False)
    if D.norm_empty(D.dump(cond)) != D.norm_empty(D.dump(expl)):
        problems.append("condense_static_mods != explicit form: " + D.diff(D.norm_empty(D.dump(cond)), D.norm_empty(D.dump(expl)))); sites.add("other")
    if sf_condense(rule) != expl.serialize():
        problems.append("sequence_funcs.condense_static_mods text differs"); sites.add("other")
    tol = 1e-6
    for ion in c12.IONS:
        for z in ((0, 1, 2) if ion == "p" else (1, 2)):
            a = pt.mass(rule, charge=z, ion_type=ion, monoisotopic=sc["mono"])
            b = pt.mass(expl, charge=z, ion_type=ion, monoisotopic=sc["mono"])
            c = pt.mass(cond, charge=z, ion_type=ion, monoisotopic=sc["mono"])
            if abs(a - b) > tol or abs(c - b) > tol:
                problems.append(f"mass ion={ion} z={z}: rule {a!r} condensed {c!r} explicit {b!r}"); sites.add("other")
            ca, da = comp_mass(rule, ion_type=ion, charge=z)
            cb, db = comp_mass(expl, ion_type=ion, charge=z)
            if sorted(ca.items()) != sorted(cb.items()) or abs(da - db) > tol:
                problems.append(f"comp_mass ion={ion} z={z} differs"); sites.add("other")
    if count_residues(rule) != count_residues(expl):
        problems.append("count_residues differs"); sites.add("other")
    has_term = any(t in ("N-Term", "C-Term") for tg, _ in sc["static"] for t in tg)
    if not (c12.F_FRAG_TERM in excl and has_term):
        fa = fragment(rule, ["b", "y", "c", "z"], [1, 2], monoisotopic=sc["mono"])
        fb = fragment(expl, ["b", "y", "c", "z"], [1, 2], monoisotopic=sc["mono"])
        bad = [(x.label, x.mass, y.mass) for x, y in zip(fa, fb) if abs(x.mass - y.mass) > tol]
        if bad:
            problems.append(f"fragment ions differ, e.g. {bad[0][0]}: rule form {bad[0][1]!r} explicit form {bad[0][2]!r} ({len(bad)} ions)")
            sites.add(c12.F_FRAG_TERM if has_term else "other")
    site = list(sites)[0] if problems and len(sites) == 1 and "other" not in sites else None
    return {"violated": bool(problems), "detail": f"{rule.serialize()!r} vs {expl.serialize()!r}: " + "; ".join(problems[:3]), "site": site}
'''


def native_static(sc, model, excl=()):
    from ..e2lib import native_call
    res = native_call(_NATIVE_STATIC, {"sc": sc, "model": model, "excl": list(excl)})
    return res["violated"], res["detail"], res.get("site")


# ------------------------------------------------------------------------------------------------ isotope labels

LABELS = {"13C": "C", "15N": "N", "18O": "O", "17O": "O", "34S": "S", "D": "H", "T": "H", "2H": "H"}
END_GROUPS = {  # atoms added to the residues for a singly charged ion (charge carriers counted as H atoms), independent table
    ("p", 0): {"H": 2, "O": 1}, ("p", 1): {"H": 3, "O": 1}, ("p", 2): {"H": 4, "O": 1},
    ("b", 1): {"H": 1}, ("y", 1): {"H": 3, "O": 1}, ("c", 1): {"H": 4, "N": 1}, ("z", 1): {"O": 1, "N": -1},
}


def label_scenarios(tier: str) -> List[Dict[str, Any]]:
    seqs = ["G", "CM", "KSW", "UHDE", "PEPTIDE"] + (["ACFILNQRTVY", "OMWKSC"] if tier == "thorough" else [])
    labs = [[l] for l in LABELS] + [["13C", "15N"], ["D", "18O"], ["34S", "T"]]
    out = []
    k = 0
    for seq in seqs:
        for lab in labs:
            for withmod in (None, "formula", "num", "formula13"):
                for on_mods in (False, True):
                    if withmod is None and on_mods:
                        continue
                    for mono in (True, False):
                        k += 1
                        out.append({"seq": seq, "labels": lab, "mod": withmod, "on_mods": on_mods, "mono": mono})
    return out


def check_label(sc) -> Obligation:
    import z3
    from .. import symreal as SR
    from .. import oracles as O
    from ..e2lib import run_e2
    from . import c03
    from peptacular.mass_calc import mass
    from peptacular.proforma.proforma_parser import create_annotation
    from peptacular.proforma.proforma_dataclasses import Mod
    mod_formula = {"C": 2, "H": 3, "N": 1, "S": 1} if sc["mod"] != "formula13" else {"C": 1, "H": 3}

    c3 = {"seq": sc["seq"], "mods": [["res0", "formula" if sc["mod"] == "formula" else "num", 1]] if sc["mod"] else [], "labels": sc["labels"],
          "adducts": None}

    def build(labels, V):
        kw = {}
        if sc["mod"] == "formula":
            kw["internal_mods"] = {0: [Mod("Formula:C2H3NS", 1)]}
        elif sc["mod"] == "formula13":
            kw["internal_mods"] = {0: [Mod("Formula:[13C2]CH3", 1)]}
        elif sc["mod"] == "num":
            kw["internal_mods"] = {0: [Mod(V("v0"), 1)]}
        if labels:
            kw["isotope_mods"] = [Mod(l, 1) for l in labels]
        return create_annotation(sc["seq"], **kw)

    def fn():
        V = lambda name: SR.real(name)
        props = []
        c3b = dict(c3)
        c3b["mods"] = []
        sc_el = {"seq": sc["seq"], "mods": [], "labels": sc["labels"], "adducts": None}
        with _label_tables(sc):
            elm = lambda e, mono: _el(e, mono)
            for (ion, z), grp in END_GROUPS.items():
                lab = mass(build(sc["labels"], V), charge=z, ion_type=ion, monoisotopic=sc["mono"], use_isotope_on_mods=sc["on_mods"])
                plain = mass(build(None, V), charge=z, ion_type=ion, monoisotopic=sc["mono"])
                shift = 0
                # D and T (and 2H) all relabel hydrogen: the library keeps the last one given; the oracle mirrors "one label per element"
                per_el = {}
                for l in sc["labels"]:
                    per_el[LABELS[l]] = l
                for el, l in per_el.items():
                    cnt = grp.get(el, 0)
                    for aa in sc["seq"]:
                        cnt += O.parse_formula(O.RESIDUES[aa]).get(el, 0)
                    if sc["on_mods"] and sc["mod"] in ("formula", "formula13"):
                        cnt += mod_formula.get(el, 0)
                    shift = shift + (elm(l, True) - elm(el, sc["mono"])) * cnt
                # the property speaks of the *neutral* mass; for charged states in average mode the two calculators differ by
                # (H_avg - H_mono) per charge carrier (C03's average-mode tolerance 1e-3 covers that, C05-F2 describes it)
                props.append(SR.close(SR.T(lab) - SR.T(plain), shift, 1e-6 if (sc["mono"] or (ion, z) == ("p", 0)) else 1e-3))
        return z3.And(*props)

    def replay(model):
        return native_label(sc, model)

    ob = run_e2("label/" + "/".join([sc["seq"], "+".join(sc["labels"]), "mono" if sc["mono"] else "avg", f"mod={sc['mod']}", f"onmods={int(sc['on_mods'])}"]),
                "a global isotope label shifts the mass by (#atoms of the element in residues, termini and charge carriers) x (isotope - element "
                "mass); modifications are reached only with use_isotope_on_mods; absent element -> unchanged", fn, functions=FUNCS,
                bounds="element and isotope masses symbolic in (0,300); ion/charge (p,0..2),(b|y|c|z,1)", replay=replay, budget_s=120)
    if ob.cex is not None:
        ob.cex.update(scenario=sc, kind="label")
    return ob


_EL: Dict[str, Any] = {}


def _el(e, mono):
    import peptacular.constants as K
    from .. import massmodel as MM
    if mono or MM.is_isotope_symbol(e):
        return K.ISOTOPIC_ATOMIC_MASSES[e]
    return K.AVERAGE_ATOMIC_MASSES[e]


def _label_tables(sc):
    """mode B tables (c03.element_tables) with the labels' isotopes and the modification's elements included"""
    from . import c03
    c3 = {"seq": sc["seq"], "mods": [["res0", "formula", 1]] if sc["mod"] in ("formula", "formula13") else [], "labels": list(sc["labels"]) + ["13C"], "adducts": None}
    # make sure S (modification) and every labelled element are symbolic even if absent from the residues
    orig = c03.elements_of

    def elements_of(s):
        els, ums, gls = orig(s)
        els.update({"S"})
        els.update(LABELS[l] for l in sc["labels"])
        els.update(sc["labels"])
        return els, ums, gls
    import contextlib

    @contextlib.contextmanager
    def cm():
        c03.elements_of = elements_of
        try:
            with c03.element_tables(c3, True):
                yield
        finally:
            c03.elements_of = orig
    return cm()


_NATIVE_LABEL = r'''
from vf.props import c12
from vf import oracles as O, massmodel as MM
def main(p):
    import warnings; warnings.simplefilter("ignore")
    import peptacular as pt
    import peptacular.constants as K
    from peptacular.proforma.proforma_parser import create_annotation
    from peptacular.proforma.proforma_dataclasses import Mod
    sc, model = p["sc"], p["model"]
    def build(labels):
        kw = {}
        if sc["mod"] == "formula": kw["internal_mods"] = {0: [Mod("Formula:C2H3NS", 1)]}
        elif sc["mod"] == "formula13": kw["internal_mods"] = {0: [Mod("Formula:[13C2]CH3", 1)]}
        elif sc["mod"] == "num": kw["internal_mods"] = {0: [Mod(float(model.get("v0", 1.5)), 1)]}
        if labels: kw["isotope_mods"] = [Mod(l, 1) for l in labels]
        return create_annotation(sc["seq"], **kw)
    def el(e, mono):
        return K.ISOTOPIC_ATOMIC_MASSES[e] if (mono or MM.is_isotope_symbol(e)) else K.AVERAGE_ATOMIC_MASSES[e]
    problems = []
    for (ion, z), grp in c12.END_GROUPS.items():
        lab = pt.mass(build(sc["labels"]), charge=z, ion_type=ion, monoisotopic=sc["mono"], use_isotope_on_mods=sc["on_mods"])
        plain = pt.mass(build(None), charge=z, ion_type=ion, monoisotopic=sc["mono"])
        per_el = {}
        for l in sc["labels"]: per_el[c12.LABELS[l]] = l
        shift = 0.0
        for e, l in per_el.items():
            cnt = grp.get(e, 0) + sum(O.parse_formula(O.RESIDUES[aa]).get(e, 0) for aa in sc["seq"])
            if sc["on_mods"] and sc["mod"] == "formula": cnt += {"C": 2, "H": 3, "N": 1, "S": 1}.get(e, 0)
            if sc["on_mods"] and sc["mod"] == "formula13": cnt += {"C": 1, "H": 3}.get(e, 0)
            shift += (el(l, True) - el(e, sc["mono"])) * cnt
        if abs((lab - plain) - shift) > (1e-5 if (sc["mono"] or (ion, z) == ("p", 0)) else 1e-3):
            problems.append(f"ion {ion} z={z}: labelled-plain = {lab-plain!r}, expected {shift!r}")
    return {"violated": bool(problems), "detail": f"{build(sc['labels']).serialize()!r} on_mods={sc['on_mods']} {'mono' if sc['mono'] else 'avg'}: " + "; ".join(problems[:3])}
'''


def native_label(sc, model):
    from ..e2lib import native_call
    res = native_call(_NATIVE_LABEL, {"sc": sc, "model": model})
    return res["violated"], res["detail"], None


# ------------------------------------------------------------------------------------------------ driver

def _work(args):
    kind, sc, known = args
    if kind == "label":
        ob = check_label(sc)
        if ob.status == CEX and ob.replayed is False:
            ob.status = INCONCLUSIVE
            ob.replayed = None
            ob.detail = "[counterexample with unreal element masses did not reproduce with the real tables] " + ob.detail
        return [ob]
    out = []
    excl: Tuple[str, ...] = ()
    for _ in range(3):
        ob = check_static(sc, excl)
        out.append(ob)
        if ob.status == CEX and ob.replayed and ob.finding in known and ob.finding not in excl:
            excl = excl + (ob.finding,)
            continue
        break
    return out


def run(tier: str, seed: int, only=None) -> Report:
    known = tuple(f["id"] for f in load_known_findings(PID))
    jobs = [("static", s, known) for s in static_scenarios(tier)] + [("label", s, known) for s in label_scenarios(tier)]
    if only:
        jobs = [j for j in jobs if only in j[0] + "/" + (sid(j[1]) if j[0] == "static" else "/".join([j[1]["seq"], "+".join(j[1]["labels"])]))]
    rep = Report(
        property_id=PID, tier=tier, seed=seed,
        explanation="Static rules: the rule form, the library-condensed form and a hand-built explicit form of the same peptide are run "
                    "through mass(), comp_mass(), fragment() and count_residues() with residue masses, offsets and modification values "
                    "symbolic (E2); z3 must find no values separating them, and condensing must yield exactly the explicit structure. "
                    "Isotope labels: with every element and isotope mass symbolic (mode B tables) mass(labelled) - mass(plain) must equal "
                    "atom count x (isotope - element mass) with atom counts from the independent residue formulas.",
        functions=FUNCS,
        bounds="static: sequences with repeated letters up to length 7 (quick) / 13 (thorough; all 22 letters occur); rules with 1-3 targets among residues, N-Term, "
               "C-Term and 1-2 modifications (numeric, Formula, Unimod, Glycan), several rules at once, residues already modified; ions "
               "p,b,y,c,z; labels: 13C,15N,18O,17O,34S,D,T,2H and three pairs, with/without a Formula or numeric modification, "
               "use_isotope_on_mods both",
        outside="peptides longer than the bound; labels on glycan/Unimod modifications",
        assumptions=["S4 (mode A for static rules, mode B for labels)", "S5", "S7",
                     "charge-carrying hydrogens count as H atoms for a hydrogen label (the library relabels them; stated in the oracle)"],
    )
    with ProcessPoolExecutor(max_workers=NCPU, mp_context=mp.get_context("spawn")) as ex:
        res = list(ex.map(_work, jobs, chunksize=4))
    rep.obligations = [o for lst in res for o in lst]
    return rep


def replay(rec: dict) -> int:
    inp = rec["inputs"]
    if inp.get("kind") == "label":
        v, d, _ = native_label(inp["scenario"], inp["model"])
    else:
        v, d, _ = native_static(inp["scenario"], inp["model"], tuple(inp.get("excl", ())))
    print("replay:", d)
    if v:
        print(f"VIOLATION property={PID} replay=(reproduced)")
        return 1
    return 0
