"""C18 condensing modifications to mass shifts preserves the peptide — E2 (symreal), round() as an uninterpreted function with
the half-unit axiom."""
from __future__ import annotations

import multiprocessing as mp
from concurrent.futures import ProcessPoolExecutor
from typing import Any, Dict, List, Tuple

from ..common import CEX, DISCHARGED, INCONCLUSIVE, NCPU, Obligation, Report, load_known_findings

PID = "C18"
FUNCS = ["mass_calc.condense_to_mass_mods", "mass_calc.mass", "mass_calc.mod_mass", "ProFormaAnnotation.split", "ProFormaAnnotation.slice",
         "ProFormaAnnotation.strip", "ProFormaAnnotation.pop_*_mods", "ProFormaAnnotation.add_*_mods", "ProFormaAnnotation.serialize",
         "proforma_parser.parse"]

FEATURES = ["res0", "resL", "nterm", "cterm", "labile", "staticAA", "staticN", "staticC", "label", "unknown", "interval", "charge", "adducts"]
KINDS = [("num", None), ("formula", "C2H3"), ("unimod", "Acetyl"), ("glycan", "Hex2")]
F_PER_RESIDUE = "C18-F1"


def scenarios(tier: str) -> List[Dict[str, Any]]:
    import itertools
    # since session 5 the quick tier runs what used to be the thorough scope (it takes seconds); thorough goes deeper
    deep = tier == "thorough"
    seqs = ["P", "PE", "CKC", "MCKM", "SEQKS"] + (["ACDEFGHIK", "LMNPQRSTVWYUO"] if deep else [])
    out = []
    k = 0
    for seq in seqs:
        out.append({"seq": seq, "feat": [], "kind": 0, "plus": False, "prec": 6})
        subsets = [(f,) for f in FEATURES] + list(itertools.combinations(FEATURES, 2))
        subsets += [tuple(FEATURES[:5]), tuple(FEATURES)]
        if deep and len(seq) <= 5:
            subsets += list(itertools.combinations(FEATURES, 3))
        for sub in subsets:
            if "adducts" in sub and "charge" not in sub:
                sub = sub + ("charge",)
            if len(seq) < 2 and "interval" in sub:
                continue
            k += 1
            out.append({"seq": seq, "feat": list(sub), "kind": k % len(KINDS), "plus": bool((k // 4) % 2), "prec": 3 + (k // 8) % 6})   # mixed radix
    return out


def slack(sc, dropped: int = 0) -> float:
    """what the tolerance 'rounding precision x number of shifts' is widened by: binary64 noise only - except for a tabulated
    (Unimod / monosaccharide) modification under an isotope label, whose condensed shift comes from the composition while the
    original's mass uses the 6-decimal table value (the two differ by up to 5e-7 per entry: C10's tolerance, not C18's subject)"""
    n = len(sc["seq"])
    # a residue whose total shift is at most 1e-6 Da is written without a modification (the library's significance threshold
    # for residue shifts, which are computed as differences): each such residue may cost 1e-6
    base = 1e-6 * dropped
    if KINDS[sc["kind"]][0] in ("unimod", "glycan") and "label" in sc["feat"]:
        return base + 1e-6 * (n + 3)
    return base + 1e-9 * (n + 3)


def to_mm(sc) -> Dict[str, Any]:
    """scenario -> massmodel scenario dict"""
    seq = sc["seq"]
    n = len(seq)
    kind, arg = KINDS[sc["kind"]]
    m: Dict[str, Any] = {"seq": seq}
    vi = 0

    def spec(mult=1):
        nonlocal vi
        if kind == "num":
            vi += 1
            return ["num", f"v{vi}", mult]
        return [kind, arg, mult]

    for f in sc["feat"]:
        if f == "res0":
            m.setdefault("internal", {}).setdefault("0", []).append(spec(2))
        elif f == "resL":
            m.setdefault("internal", {}).setdefault(str(n - 1), []).append(spec())
        elif f in ("nterm", "cterm", "labile", "unknown"):
            m.setdefault(f, []).append(spec())
        elif f == "staticAA":
            m.setdefault("static", []).append([[seq[0]], [spec()]])
        elif f == "staticN":
            m.setdefault("static", []).append([["N-Term"], [spec()]])
        elif f == "staticC":
            m.setdefault("static", []).append([["C-Term"], [spec()]])
        elif f == "label":
            m["isotope_labels"] = ["13C"]
        elif f == "interval":
            m["intervals"] = [[0, n, False, [spec()]]] if n < 3 else [[1, n, True, [spec()]]]
        elif f == "charge":
            m["charge"] = 2
            m["charge_in_annotation"] = True
        elif f == "adducts":
            m["adducts"] = "+Na+,+H+"
            m["adducts_in_annotation"] = True
    return m


def sid(sc) -> str:
    return "/".join([sc["seq"], "feat=" + ("+".join(sc["feat"]) or "-"), "kind=" + KINDS[sc["kind"]][0], f"plus={int(sc['plus'])}", f"prec={sc['prec']}"])


def modified_positions(sc) -> Tuple[set, bool, bool, bool]:
    """(residue indices that may carry a shift, nterm?, cterm?, labile?) according to where the original is modified"""
    seq = sc["seq"]
    n = len(seq)
    pos = set()
    nt = ct = lab = False
    for f in sc["feat"]:
        if f == "res0":
            pos.add(0)
        elif f == "resL":
            pos.add(n - 1)
        elif f == "nterm" or f == "staticN":
            nt = True
        elif f == "cterm" or f == "staticC":
            ct = True
        elif f == "labile":
            lab = True
        elif f == "staticAA":
            pos.update(i for i, c in enumerate(seq) if c == seq[0])
        elif f == "label":
            pos.update(range(n))
        # unknown-position and interval modifications stay where they are written (not on residues)
    return pos, nt, ct, lab


def check(sc, excl=(), pinned=False) -> Obligation:
    import z3
    from .. import symreal as SR
    from .. import massmodel as MM
    from ..e2lib import run_e2
    from peptacular.mass_calc import mass, condense_to_mass_mods
    from peptacular.proforma.proforma_parser import parse, ProFormaAnnotation
    m = to_mm(sc)
    slots = MM.value_slots(m)
    n = len(sc["seq"])
    prec = sc["prec"]

    def fn():
        # with an isotope label the labelled masses come from the composition path (element table) while the stripped residues come
        # from the residue table: keep all tables real there, modification values stay symbolic
        env = MM.Env(sym=True, real_parts=("aa", "fa", "fi", "particles", "el", "um", "gl") if (m.get("isotope_labels") or pinned) else ())
        V = lambda name: SR.real(name)
        for s_ in slots:
            SR.assume(z3.And(SR.T(V(s_)) >= -10000, SR.T(V(s_)) <= 10000))
        with MM.symbolic_tables([m], env, ions=("p",)):
            for nm, v in list(env.symbols.items()):
                SR.assume(z3.And(SR.T(v) > 0, SR.T(v) < 1000))
            ann = MM.build(m, V)
            pristine = MM.build(m, V)       # the same peptide, never handed to the library before the reference mass is taken
            # the way a caller works: weigh the peptide object, condense the *same* object, weigh it again - weighing must not
            # have changed what is condensed, nor condensing what is weighed
            m_pre = mass(ann, monoisotopic=True)
            text = condense_to_mass_mods(ann, include_plus=sc["plus"], precision=prec)
            m_post = mass(ann, monoisotopic=True)
            same_object = SR.close(m_post, m_pre, 1e-9)
            SR.assume_round_axiom()
            if not isinstance(text, str):
                fn.why = "did not return a str"
                return False
            back = parse(text)
            if not isinstance(back, ProFormaAnnotation) or back.sequence != sc["seq"]:
                fn.why = f"residues changed: {text!r}"
                return False
            if not sc["feat"]:
                if text != sc["seq"]:
                    fn.why = f"unmodified peptide changed: {text!r}"
                    return False
                return True
            # only numeric modifications, and only where the original is modified
            pos, nt, ct, lab = modified_positions(sc)
            shifts = 0
            for name, lst, allowed in (("nterm", back.nterm_mods, nt), ("cterm", back.cterm_mods, ct), ("labile", back.labile_mods, lab)):
                for mod in lst or []:
                    if isinstance(mod.val, str):
                        fn.why = f"non-numeric modification {mod.val!r} in {text!r}"
                        return False
                    if not allowed and F_PER_RESIDUE not in excl:
                        fn.why = f"shift written on the {name} although the original is not modified there: {text!r}"
                        return False
                    shifts += mod.mult
            for i, lst in (back.internal_mods or {}).items():
                for mod in lst:
                    if isinstance(mod.val, str):
                        fn.why = f"non-numeric modification {mod.val!r} in {text!r}"
                        return False
                    if i not in pos and F_PER_RESIDUE not in excl:
                        fn.why = f"shift written on residue {i} although the original is not modified there: {text!r}"
                        return False
                    shifts += mod.mult
            for mod in back.unknown_mods or []:
                if isinstance(mod.val, str) or "unknown" not in sc["feat"]:
                    fn.why = f"unexpected unknown-position modification in {text!r}"
                    return False
                shifts += mod.mult
            for iv in back.intervals or []:
                if "interval" not in sc["feat"]:
                    fn.why = f"unexpected interval in {text!r}"
                    return False
                for mod in iv.mods or []:
                    if isinstance(mod.val, str):
                        fn.why = f"non-numeric interval modification in {text!r}"
                        return False
                    shifts += mod.mult
            for extra in (back.static_mods, back.isotope_mods, back.charge_adducts):
                if extra:
                    fn.why = f"non-shift annotation left in {text!r}"
                    return False
            if back.charge:
                fn.why = f"charge left in {text!r}"
                return False
            # mass preserved (neutral peptide: the condensed text carries no charge)
            neutral = pristine
            neutral.charge = None
            neutral.charge_adducts = None
            m0 = mass(neutral, monoisotopic=True)
            m1 = mass(back, monoisotopic=True)
            dropped = max(0, len(pos) - len(back.internal_mods or {}))
            tol = (10.0 ** (-prec)) * max(shifts, 1) + slack(sc, dropped)
        return _both(same_object, SR.close(m1, m0, tol))

    def _both(a, b):
        return z3.And(a, b)

    fn.why = ""

    def replay(model):
        return native(sc, model, excl)

    ob = run_e2("condense/" + ("pinned/" if pinned else "") + sid(sc) + ("/minus-" + "-".join(excl) if excl else ""),
                "same residues; only numeric shifts, only where the original is modified; neutral mass preserved within precision x #shifts; unmodified unchanged",
                fn, functions=FUNCS, bounds="|mod values|<=1e4; table symbols in (0,1000); round() = R with |R(x,p)-x|<=0.5*10^-p", replay=replay, budget_s=120)
    if ob.cex is not None:
        ob.cex.update(scenario=sc, excl=list(excl), structural=fn.why)
    return ob


_NATIVE = r'''
from vf import massmodel as MM
from vf.props import c18
def main(p):
    import warnings; warnings.simplefilter("ignore")
    import peptacular as pt
    from peptacular.mass_calc import condense_to_mass_mods
    sc, model, excl = p["sc"], p["model"], tuple(p["excl"])
    m = c18.to_mm(sc)
    V = lambda name: float(model.get(name, 1.25))
    ann = MM.build(m, V)
    pristine = MM.build(m, V)
    src = ann.serialize()
    m_pre = pt.mass(ann)
    text = condense_to_mass_mods(ann, include_plus=sc["plus"], precision=sc["prec"])
    m_post = pt.mass(ann)
    back = pt.parse(text)
    problems = []
    if abs(m_post - m_pre) > 1e-9 or ann.serialize() != src:
        problems.append(f"the peptide object changed between mass(), condense_to_mass_mods() and mass() again: {src!r} -> {ann.serialize()!r} ({m_pre!r} -> {m_post!r})")
    if back.sequence != sc["seq"]:
        problems.append("residues changed")
    if not sc["feat"] and text != sc["seq"]:
        problems.append("unmodified peptide changed")
    pos, nt, ct, lab = c18.modified_positions(sc)
    shifts = 0
    where = []
    for name, lst, allowed in (("nterm", back.nterm_mods, nt), ("cterm", back.cterm_mods, ct), ("labile", back.labile_mods, lab)):
        for mod in lst or []:
            if isinstance(mod.val, str): problems.append(f"non-numeric {mod.val!r}")
            if not allowed: where.append(name)
            shifts += mod.mult
    for i, lst in (back.internal_mods or {}).items():
        for mod in lst:
            if isinstance(mod.val, str): problems.append(f"non-numeric {mod.val!r}")
            if i not in pos: where.append(f"residue {i}")
            shifts += mod.mult
    for mod in back.unknown_mods or []:
        if isinstance(mod.val, str) or "unknown" not in sc["feat"]: problems.append("unexpected unknown-position modification")
        shifts += mod.mult
    for iv in back.intervals or []:
        if "interval" not in sc["feat"]: problems.append("unexpected interval")
        for mod in iv.mods or []:
            if isinstance(mod.val, str): problems.append("non-numeric interval modification")
            shifts += mod.mult
    if back.static_mods or back.isotope_mods or back.charge_adducts or back.charge:
        problems.append("non-shift annotation left")
    if where and c18.F_PER_RESIDUE not in excl:
        problems.append("shift written where the original is not modified: " + ", ".join(where))
    neutral = pristine; neutral.charge = None; neutral.charge_adducts = None
    m0, m1 = pt.mass(neutral), pt.mass(back)
    dropped = max(0, len(pos) - len(back.internal_mods or {}))
    tol = (10.0 ** (-sc["prec"])) * max(shifts, 1) + c18.slack(sc, dropped)
    if abs(m1 - m0) > tol:
        problems.append(f"mass {m1!r} vs original {m0!r} (diff {m1-m0:+.6g}, tolerance {tol:.3g})")
    site = None
    if problems and any(f in sc["feat"] for f in ("unknown", "interval", "charge", "adducts", "staticN", "staticC")):
        site = c18.F_PER_RESIDUE
    return {"violated": bool(problems), "detail": f"condense_to_mass_mods({src!r}, include_plus={sc['plus']}, precision={sc['prec']}) = {text!r}: " + "; ".join(problems[:3]), "site": site}
'''


def native(sc, model, excl=()):
    from ..e2lib import native_call
    res = native_call(_NATIVE, {"sc": sc, "model": model, "excl": list(excl)})
    return res["violated"], res["detail"], res.get("site")


def _work(args):
    sc, known = args
    ob = check(sc)
    if ob.status == CEX and ob.replayed is False:
        ob = check(sc, pinned=True)       # latent counterexample (unreal table values): decide with the real tables
    if ob.status == CEX and ob.replayed is False:
        # R is coarser than real rounding and table symbols may be unreal: not a counterexample of the real code
        ob.status = INCONCLUSIVE
        ob.replayed = None
        ob.detail = "[abstract counterexample (S6/S4) not reproducible natively] " + ob.detail
    return [ob]


def run(tier: str, seed: int, only=None) -> Report:
    scs = scenarios(tier)
    if only:
        scs = [s for s in scs if only in sid(s)]
    known = tuple(f["id"] for f in load_known_findings(PID))
    rep = Report(
        property_id=PID, tier=tier, seed=seed,
        explanation="condense_to_mass_mods runs natively on symbolic residue masses, offsets and modification values (E2); round() is the "
                    "uninterpreted function R with the single axiom |R(x,p)-x|<=0.5*10^-p; the returned text (symbolic values as "
                    "reversible tokens) is re-parsed and z3 is asked for values where the neutral mass moves by more than precision x "
                    "#shifts, while the structural clauses (same residues, numeric modifications only, shifts only where the original is "
                    "modified, unmodified unchanged) are checked on every path.",
        functions=FUNCS,
        bounds="sequences P, PE, CKC, MCKM, SEQKS (quick) + ACDEFGHIK, LMNPQRSTVWYUO (thorough); each of 13 features alone, in pairs, the "
               "first five together and all 13 together, in triples for the sequences up to 5 residues (thorough) (residue, terminal, labile, "
               "static residue/N-Term/C-Term, isotope label, unknown, interval, charge, adducts); numeric/Formula/Unimod/Glycan values; "
               "include_plus both; precision 3..8",
        outside="longer peptides; several modifications per slot; IEEE rounding (S5, S6)",
        assumptions=["S4", "S5", "S6 with the half-unit axiom", "S7", "the condensed text is compared with the *neutral* original (it carries no charge)"],
    )
    with ProcessPoolExecutor(max_workers=NCPU, mp_context=mp.get_context("spawn")) as ex:
        res = list(ex.map(_work, [(s, known) for s in scs], chunksize=4))
    rep.obligations = [o for lst in res for o in lst]
    return rep


def replay(rec: dict) -> int:
    inp = rec["inputs"]
    v, d, _ = native(inp["scenario"], inp["model"], tuple(inp.get("excl", ())))
    print("replay:", d)
    if v:
        print(f"VIOLATION property={PID} replay=(reproduced)")
        return 1
    return 0
