"""C14 isotopic distributions — E2 (symreal), partial: scaling parameters, particle counts, neutron mass and (small formulas)
isotope abundances symbolic; element counts and isotope masses concrete (loop bounds and dictionary keys)."""
from __future__ import annotations

import itertools
import multiprocessing as mp
from concurrent.futures import ProcessPoolExecutor
from typing import Any, Dict, List, Tuple

from ..common import CEX, DISCHARGED, INCONCLUSIVE, NCPU, Obligation, Report, load_known_findings

PID = "C14"
FUNCS = ["isotope.isotopic_distribution", "isotope._calculate_elemental_distribution", "isotope._convolve_distributions", "isotope._scale_isotope_abundances",
         "isotope.merge_isotopic_distributions", "chem_util.chem_mass", "constants.ATOMIC_SYMBOL_TO_ISOTOPE_MASSES_AND_ABUNDANCES"]

COMPS_Q = [{"C": 1}, {"C": 2}, {"C": 1, "H": 2}, {"H": 2, "O": 1}, {"C": 2, "H": 3, "N": 1, "O": 1}, {"S": 1, "H": 1}, {"C": 3, "H": 3, "S": 1, "P": 1}]
# isotope-labelled elements (every spelling of deuterium/tritium): one peak at that isotope's mass, offset 0 in the neutron view
COMPS_L = [{"13C": 1, "H": 2}, {"2H": 2, "O": 1}, {"D": 2, "O": 1}, {"T": 1, "3H": 1, "C": 1}, {"15N": 1, "18O": 1, "34S": 1}]
COMPS_Q = COMPS_Q + COMPS_L
# fractional element counts: the library rounds the counts and shifts every peak by the mass it rounded away
COMPS_F = [{"C": 2.4, "H": 5, "N": 0.7}, {"C": 1.5, "H": 2}, {"H": 2.5, "O": 1, "S": 0.3}]
COMPS_Q = COMPS_Q + COMPS_F
F_NEUTRON_FRAC = "C14-F1"   # neutron-offset view with masses: the fractional-count correction is multiplied by the neutron mass
COMPS_T = COMPS_Q + [{"C": 3, "H": 3, "N": 1, "O": 2}, {"Cl": 2, "C": 1}, {"C": 6, "H": 6}, {"N": 3, "O": 3}, {"C": 2, "S": 2}]
# since session 5 the quick tier runs the former thorough scope (about 1.5 min); thorough adds heavier and multi-isotope formulas
# (elements of the independent isotope table vf/oracles.py only; Se: lightest isotope is not the most abundant one)
COMPS_D = COMPS_T + [{"C": 4, "H": 6, "O": 2}, {"Se": 1, "C": 1, "H": 2}, {"K": 1, "Cl": 1}, {"Ca": 1, "O": 1}, {"Mg": 1, "Cl": 2}, {"Li": 2, "O": 1},
                     {"Na": 1, "I": 1}, {"C": 2, "H": 6, "Se": 1}]
SMALL = [{"C": 1}, {"C": 2}, {"C": 1, "H": 2}, {"H": 2, "O": 1}, {"C": 1, "N": 1, "H": 1}, {"Cl": 2}]


def _mono(el: str):
    """monoisotopic mass of an element symbol or of an isotope label, from the independent table"""
    from .. import oracles as O
    return O.mono(el) if el in O.ISOTOPES else O.isotope(el)


def _lightest_is_mono(comp) -> bool:
    """the property asserts 'lightest peak = monoisotopic mass' only for elements whose lightest isotope is the most abundant one
    (C, H, N, O, S, P; also true of Cl, Br, K, Si) - not for Se, Fe, B, ..., whose monoisotopic mass is a heavier isotope's"""
    import peptacular.constants as K
    tab = K.ATOMIC_SYMBOL_TO_ISOTOPE_MASSES_AND_ABUNDANCES
    for el in comp:
        iso = tab.get(el)
        if iso and len(iso) > 1 and max(iso, key=lambda t: t[1])[0] != min(iso, key=lambda t: t[0])[0]:
            return False
    return True


def _binning_job(args) -> Obligation:
    """neutron-offset view == mass view binned by nominal mass (requested abundance symbolic, no pruning)"""
    comp, is_sum = args
    import z3
    from .. import symreal as SR
    from ..e2lib import run_e2
    from peptacular.isotope import isotopic_distribution

    def views(A):
        mv = isotopic_distribution(dict(comp), min_abundance_threshold=0.0, distribution_abundance=A, is_abundance_sum=is_sum)
        nv = isotopic_distribution(dict(comp), min_abundance_threshold=0.0, use_neutron_count=True, distribution_abundance=A, is_abundance_sum=is_sum)
        return mv, nv

    def bins(mv):
        out: Dict[int, Any] = {}
        base = float(sum(float(_mono(el)) * cnt for el, cnt in comp.items()))
        for m, a in mv:
            k = int(round(float(m) - base))
            out[k] = out[k] + a if k in out else a
        return out

    def fn():
        A = SR.real("abundance")
        SR.assume(z3.And(A.t > 0, A.t <= 1000000))
        mv, nv = views(A)
        b = bins(mv)
        if sorted(b) != [k for k, _ in nv]:
            fn.why = f"offsets {[k for k, _ in nv]} vs nominal-mass bins {sorted(b)}"
            return False
        # the mass view scales its largest *resolved* peak, the neutron view its largest bin: compare shapes (ratios to the total)
        tot_m = 0
        for _, a in mv:
            tot_m = tot_m + a
        tot_n = 0
        for _, a in nv:
            tot_n = tot_n + a
        props = []
        for k, a in nv:
            props.append(SR.close(a * tot_m, b[k] * tot_n, 1e-9 * 1e12))
        return z3.And(*props)

    fn.why = ""

    def replay(model):
        A = model.get("abundance", 1.0)
        from ..e2lib import native_call
        code = r"""
from vf.props import c14
def main(p):
    from peptacular.isotope import isotopic_distribution
    comp, A, is_sum = p["comp"], p["A"], p["is_sum"]
    mv = isotopic_distribution(dict(comp), min_abundance_threshold=0.0, distribution_abundance=A, is_abundance_sum=is_sum)
    nv = isotopic_distribution(dict(comp), min_abundance_threshold=0.0, use_neutron_count=True, distribution_abundance=A, is_abundance_sum=is_sum)
    base = float(sum(float(c14._mono(el)) * cnt for el, cnt in comp.items()))
    b = {}
    for m, a in mv:
        k = int(round(m - base)); b[k] = b.get(k, 0.0) + a
    tm, tn = sum(a for _, a in mv), sum(a for _, a in nv)
    bad = sorted(b) != [k for k, _ in nv] or any(abs(a / tn - b[k] / tm) > 1e-9 for k, a in nv)
    return {"violated": bool(bad), "detail": f"isotopic_distribution({comp}, abundance={A}, sum={is_sum}): neutron view {nv} vs mass view binned by nominal mass (offset from the monoisotopic mass {base}) {sorted(b.items())}"}
"""
        res = native_call(code, {"comp": comp, "A": A, "is_sum": is_sum})
        return res["violated"], res["detail"], None

    ob = run_e2("binning/" + "".join(f"{k}{v}" for k, v in comp.items()) + f"/sum={int(is_sum)}", "the neutron-offset view is the mass view binned by nominal mass",
                fn, functions=FUNCS, bounds="requested abundance in (0,1e6] symbolic; composition and isotope table concrete; no pruning", replay=replay, budget_s=60)
    if ob.cex is not None:
        ob.cex["args"] = list(args)
    return ob


def _label_job(args) -> Obligation:
    """every isotope label of the table: a single peak at that isotope's mass (= chem_mass of the label), offset 0 in the neutron view"""
    labels = args
    import z3
    from .. import symreal as SR
    from .. import oracles as O
    from ..e2lib import run_e2
    from peptacular.isotope import isotopic_distribution
    from peptacular.chem.chem_util import chem_mass

    def want(l):
        w = [chem_mass({l: 2})]
        try:
            w.append(2 * float(O.isotope(l)))
        except KeyError:
            pass
        return w

    def fn():
        A = SR.real("abundance")
        SR.assume(z3.And(A.t > 0, A.t <= 1000000))
        props = []
        for l in labels:
            mv = isotopic_distribution({l: 2}, distribution_abundance=A)
            nv = isotopic_distribution({l: 2}, use_neutron_count=True, distribution_abundance=A)
            if len(mv) != 1 or len(nv) != 1 or nv[0][0] != 0 or any(abs(float(mv[0][0]) - w) > 1e-4 for w in want(l)):
                fn.why = f"label {l}: mass view {mv}, neutron view {nv}, isotope mass x2 = {want(l)}"
                return False
            props.append(SR.close(mv[0][1], A, 1e-9 * 1e6))
            props.append(SR.close(nv[0][1], A, 1e-9 * 1e6))
        return z3.And(*props)

    fn.why = ""

    def replay(model):
        from ..e2lib import native_call
        code = r"""
from vf import oracles as O
def main(p):
    from peptacular.isotope import isotopic_distribution
    from peptacular.chem.chem_util import chem_mass
    bad = []
    for l in p["labels"]:
        mv = isotopic_distribution({l: 2}); nv = isotopic_distribution({l: 2}, use_neutron_count=True)
        w = [chem_mass({l: 2})]
        try: w.append(2 * float(O.isotope(l)))
        except KeyError: pass
        if len(mv) != 1 or len(nv) != 1 or nv[0][0] != 0 or any(abs(mv[0][0] - x) > 1e-4 for x in w):
            bad.append(f"isotopic_distribution({{{l!r}: 2}}) = {mv} (neutron view {nv}); two atoms of that isotope weigh {w}")
    return {"violated": bool(bad), "detail": "; ".join(bad[:3])}
"""
        res = native_call(code, {"labels": labels})
        return res["violated"], res["detail"], None

    ob = run_e2(f"labels/{labels[0]}..{labels[-1]}", "an isotope-labelled element is a single peak at that isotope's mass (offset 0 in the neutron view)",
                fn, functions=FUNCS, bounds=f"{len(labels)} isotope labels of the table x 2 atoms; requested abundance symbolic", replay=replay, budget_s=60)
    if ob.cex is not None:
        ob.cex["args"] = list(args)
    return ob


def _estimate_job(args) -> Obligation:
    """estimate_isotopic_distribution(mass, options) = isotopic_distribution(averagine composition of that mass, the same options):
    every option is forwarded; scaling as requested; the lightest peak of the mass view sits at the requested neutral mass"""
    mass0, use_n, out_m, is_sum, th = args
    import z3
    from .. import symreal as SR
    from ..e2lib import run_e2
    from peptacular.isotope import isotopic_distribution, estimate_isotopic_distribution
    from peptacular.chem.chem_calc import estimate_comp

    def fn():
        A = SR.real("abundance")
        SR.assume(z3.And(A.t > 0, A.t <= 1000000))
        kw = dict(max_isotopes=6, min_abundance_threshold=th, distribution_resolution=3, use_neutron_count=use_n, distribution_abundance=A,
                  is_abundance_sum=is_sum, output_masses_for_neutron_offset=out_m, neutron_mass=1.002856)
        got = estimate_isotopic_distribution(mass0, **kw)
        ref = isotopic_distribution(estimate_comp(mass0), **kw)
        if len(got) != len(ref) or not got:
            fn.why = f"{len(got)} peaks, isotopic_distribution(estimate_comp(mass)) gives {len(ref)}"
            return False
        props = []
        tot = 0
        for (m1, a1), (m2, a2) in zip(got, ref):
            props.append(z3.And(SR.T(m1) == SR.T(m2), SR.T(a1) == SR.T(a2)))
            tot = tot + a1
        if is_sum:
            props.append(SR.close(tot, A, 1e-9 * 1000000))
        else:
            props.append(z3.Or(*[SR.close(a, A, 1e-9 * 1000000) for _, a in got]))
        if not use_n and th == 0.0:
            props.append(SR.close(got[0][0], mass0, 2e-3))        # resolution 3
        return z3.And(*props)

    fn.why = ""

    def replay(model):
        from ..e2lib import native_call
        code = r"""
def main(p):
    from peptacular.isotope import isotopic_distribution, estimate_isotopic_distribution
    from peptacular.chem.chem_calc import estimate_comp
    A = p["A"]
    kw = dict(max_isotopes=6, min_abundance_threshold=p["th"], distribution_resolution=3, use_neutron_count=p["use_n"], distribution_abundance=A,
              is_abundance_sum=p["is_sum"], output_masses_for_neutron_offset=p["out_m"], neutron_mass=1.002856)
    got = estimate_isotopic_distribution(p["mass"], **kw)
    ref = isotopic_distribution(estimate_comp(p["mass"]), **kw)
    bad = []
    if len(got) != len(ref) or any(abs(a - c) > 1e-9 or abs(b - d) > 1e-9 * max(1, A) for (a, b), (c, d) in zip(got, ref)):
        bad.append(f"differs from isotopic_distribution(estimate_comp(mass), same options): {got[:3]} vs {ref[:3]}")
    ab = [y for _, y in got]
    if p["is_sum"] and abs(sum(ab) - A) > 1e-6 * max(1, A): bad.append(f"total {sum(ab)} != requested {A}")
    if not p["is_sum"] and abs(max(ab) - A) > 1e-6 * max(1, A): bad.append(f"largest peak {max(ab)} != requested {A}")
    if not p["use_n"] and p["th"] == 0.0 and abs(got[0][0] - p["mass"]) > 2e-3: bad.append(f"lightest peak {got[0][0]} != neutral mass {p['mass']}")
    return {"violated": bool(bad), "detail": f"estimate_isotopic_distribution({p['mass']}, use_neutron_count={p['use_n']}, output_masses={p['out_m']}, sum={p['is_sum']}, abundance={A}, threshold={p['th']}): " + "; ".join(bad)}
"""
        res = native_call(code, {"mass": mass0, "A": model.get("abundance", 1.0), "use_n": use_n, "out_m": out_m, "is_sum": is_sum, "th": th})
        return res["violated"], res["detail"], None

    ob = run_e2(f"estimate/{mass0}/n={int(use_n)}{int(out_m)}/sum={int(is_sum)}/th={th}", "estimate_isotopic_distribution forwards every option to isotopic_distribution of the averagine composition; scaled as requested",
                fn, functions=["isotope.estimate_isotopic_distribution", "chem_calc.estimate_comp"] + FUNCS[:4], bounds="neutral mass concrete, requested abundance symbolic in (0,1e6]",
                replay=replay, budget_s=60)
    if ob.cex is not None:
        ob.cex["args"] = list(args)
    return ob


def _scaling_job(args, excl=()) -> Obligation:
    """real isotope tables; distribution_abundance, threshold, particle counts, neutron mass symbolic"""
    comp, use_n, out_m, is_sum, with_particles = args
    frac = any(not isinstance(v, int) for v in comp.values())
    import z3
    from .. import symreal as SR
    from ..e2lib import run_e2
    from .. import oracles as O
    import peptacular.constants as K
    from peptacular.isotope import isotopic_distribution

    def fn():
        A = SR.real("abundance")
        th = SR.real("threshold")
        nm = SR.real("neutron_mass")
        SR.assume(z3.And(A.t > 0, A.t <= 1000000, th.t >= 0, th.t <= 1, nm.t > 0.9, nm.t < 1.1))
        formula: Dict[str, Any] = dict(comp)
        e = p = n = None
        if with_particles:
            e, p, n = SR.real("n_e"), SR.real("n_p"), SR.real("n_n")
            for x in (e, p, n):
                SR.assume(z3.And(x.t >= -5, x.t <= 5))
            formula.update({"e": e, "p": p, "n": n})
        before = sorted((k, str(v)) for k, v in formula.items())
        dist = isotopic_distribution(formula, min_abundance_threshold=th, use_neutron_count=use_n, output_masses_for_neutron_offset=out_m,
                                     distribution_abundance=A, is_abundance_sum=is_sum, neutron_mass=nm)
        if sorted((k, str(v)) for k, v in formula.items()) != before:
            return False
        props = []
        # completeness under the symbolic threshold: a peak of the unpruned pattern is returned iff its abundance relative to the
        # largest peak reaches the threshold (the unpruned pattern is computed once, concretely, by the same function)
        ref = isotopic_distribution(dict(comp), min_abundance_threshold=0.0, use_neutron_count=use_n, distribution_abundance=1.0)
        if not use_n or not out_m:
            got_n = len(dist)
            kept = 0
            for _, rel in ref:
                kept = kept + z3.If(th.t <= SR.T(rel), 1, 0)
            props.append(kept == got_n)
        if not dist:
            return True       # everything pruned by the symbolic threshold: nothing to state (threshold <= 1 keeps the base peak, see below)
        masses = [m for m, _ in dist]
        for i in range(len(masses) - 1):
            props.append(SR.T(masses[i]) <= SR.T(masses[i + 1]))                       # sorted by mass
        abund = [a for _, a in dist]
        tot = 0
        for a in abund:
            tot = tot + a
            props.append(z3.And(SR.T(a) >= 0, SR.T(a) <= A.t * (1 + 1e-9)))
        if is_sum:
            props.append(SR.close(tot, A, 1e-9 * 1000000))                                  # total equals the requested abundance
        else:
            props.append(z3.Or(*[SR.close(a, A, 1e-9 * 1000000) for a in abund]))            # largest peak equals the requested abundance
        # lightest peak = monoisotopic mass of the composition incl. particles (no pruning of the lightest peak for C,H,N,O,S,P:
        # it is the most abundant combination of lightest isotopes and survives any threshold <= 1 only if it is the base peak;
        # the clause is therefore asserted when the threshold is 0)
        mono = sum(float(_mono(el)) * cnt for el, cnt in comp.items())
        if not _lightest_is_mono(comp):
            pass        # outside the clause (quantifier): normalisation and sortedness only
        elif not use_n or out_m:
            want = mono
            if with_particles:
                want = mono + SR.T(e) * K.ELECTRON_MASS + SR.T(p) * K.PROTON_MASS + SR.T(n) * K.NEUTRON_MASS
            if use_n and out_m and frac and F_NEUTRON_FRAC in excl:
                # known finding: (rounded-away mass) x neutron mass instead of the rounded-away mass
                delta = mono - sum(float(_mono(el)) * round(cnt) for el, cnt in comp.items())
                want = want + delta * (nm.t - 1)
            props.append(z3.Implies(th.t == 0, SR.close(masses[0], want, 1e-4)))
        else:
            props.append(z3.Implies(th.t == 0, SR.T(masses[0]) == 0))
        return z3.And(*props)

    def replay(model):
        from ..e2lib import native_call
        code = r'''
from vf import oracles as O
def main(p):
    import peptacular.constants as K
    from peptacular.isotope import isotopic_distribution
    comp, m = p["comp"], p["model"]
    f = dict(comp)
    if p["with_particles"]:
        f.update({"e": m.get("n_e", 0.0), "p": m.get("n_p", 0.0), "n": m.get("n_n", 0.0)})
    A, th, nm = m.get("abundance", 1.0), m.get("threshold", 0.0), m.get("neutron_mass", 1.0)
    d = isotopic_distribution(dict(f), min_abundance_threshold=th, use_neutron_count=p["use_n"], output_masses_for_neutron_offset=p["out_m"],
                              distribution_abundance=A, is_abundance_sum=p["is_sum"], neutron_mass=nm)
    bad = []; site = None
    if not p["use_n"] or not p["out_m"]:
        ref = isotopic_distribution(dict(comp), min_abundance_threshold=0.0, use_neutron_count=p["use_n"], distribution_abundance=1.0)
        keep = sum(1 for _, rel in ref if rel >= th)
        if keep != len(d): bad.append(f"{len(d)} peaks returned, but {keep} peaks of the unpruned pattern have relative abundance >= threshold {th}")
    if d:
        ms = [x for x, _ in d]; ab = [y for _, y in d]
        if ms != sorted(ms): bad.append("not sorted by mass")
        if p["is_sum"] and abs(sum(ab) - A) > 1e-6 * max(1, A): bad.append(f"sum {sum(ab)} != {A}")
        if not p["is_sum"] and abs(max(ab) - A) > 1e-6 * max(1, A): bad.append(f"max {max(ab)} != {A}")
        from vf.props.c14 import _mono
        mono = sum(float(_mono(e)) * c for e, c in comp.items())
        from vf.props.c14 import _lightest_is_mono
        if th == 0 and (not p["use_n"] or p["out_m"]) and _lightest_is_mono(comp):
            want = mono
            if p["with_particles"]:
                want += f["e"] * K.ELECTRON_MASS + f["p"] * K.PROTON_MASS + f["n"] * K.NEUTRON_MASS
            delta = mono - sum(float(_mono(e)) * round(c) for e, c in comp.items())
            frac_view = p["use_n"] and p["out_m"] and delta != 0
            if frac_view and "C14-F1" in p["excl"]:
                want += delta * (nm - 1)
            if abs(ms[0] - want) > 1e-4:
                bad.append(f"lightest peak {ms[0]} != monoisotopic mass incl. particles {want}")
                if frac_view and "C14-F1" not in p["excl"] and abs(ms[0] - want - delta * (nm - 1)) <= 1e-4 and len(bad) == 1:
                    site = "C14-F1"
    return {"violated": bool(bad), "site": site, "detail": f"isotopic_distribution({f}, use_neutron_count={p['use_n']}, output_masses={p['out_m']}, sum={p['is_sum']}, abundance={A}, threshold={th}): " + "; ".join(bad)}
'''
        res = native_call(code, {"comp": comp, "model": model, "use_n": use_n, "out_m": out_m, "is_sum": is_sum, "with_particles": with_particles,
                                 "excl": list(excl)})
        return res["violated"], res["detail"], res.get("site")

    oid = "scaling/" + "".join(f"{k}{v}" for k, v in comp.items()) + f"/n={int(use_n)}{int(out_m)}/sum={int(is_sum)}/particles={int(with_particles)}" + \
          ("/minus-" + "-".join(excl) if excl else "")
    ob = run_e2(oid, "sorted by mass; largest peak (or total) = requested abundance; lightest peak = monoisotopic mass incl. e/p/n", fn, functions=FUNCS,
                bounds="requested abundance in (0,1e6], threshold in [0,1], neutron mass in (0.9,1.1), particle counts in [-5,5] symbolic; composition and isotope table concrete",
                replay=replay, budget_s=120, max_paths=4000)
    if ob.cex is not None:
        ob.cex["args"] = list(args)
    return ob


def _abundance_job(args) -> Obligation:
    """small formulas: isotope abundances symbolic -> weighted mean = average mass, peaks = exact multinomial expansion"""
    comp, sym_el = args
    import z3
    from .. import symreal as SR
    from ..e2lib import run_e2, patched
    import peptacular.constants as K
    from peptacular.isotope import isotopic_distribution
    els = sorted(comp)

    def fn():
        table = {}
        ab: Dict[str, List[Any]] = {}
        for el in els:
            real = K.ATOMIC_SYMBOL_TO_ISOTOPE_MASSES_AND_ABUNDANCES[el][:2]        # two-isotope model of the element
            if el == sym_el:
                a0 = SR.real(f"ab_{el}")
                SR.assume(z3.And(a0.t >= 0.05, a0.t <= 0.95))
                ab[el] = [a0, 1 - a0]
            else:
                t0_ = real[0][1] / (real[0][1] + real[1][1])
                ab[el] = [t0_, 1 - t0_]
            table[el] = [(real[0][0], ab[el][0]), (real[1][0], ab[el][1])]
        with patched([(K.ATOMIC_SYMBOL_TO_ISOTOPE_MASSES_AND_ABUNDANCES, table)], {}, []):
            dist = isotopic_distribution(dict(comp), is_abundance_sum=True, distribution_abundance=1.0, distribution_resolution=5)
        props = []
        # exact multinomial expansion: one peak per multiset of isotopes, probability = product of binomials
        want: Dict[float, Any] = {}
        per_el = []
        for el in els:
            c = comp[el]
            m0, m1 = table[el][0][0], table[el][1][0]
            opts = []
            for k in range(c + 1):
                import math
                prob = ab[el][0] ** (c - k) * ab[el][1] ** k * math.comb(c, k) if True else None
                opts.append((m0 * (c - k) + m1 * k, prob))
            per_el.append(opts)
        for combo in itertools.product(*per_el):
            mass = round(sum(m for m, _ in combo), 5)
            pr = 1
            for _, p_ in combo:
                pr = pr * p_
            want[mass] = want[mass] + pr if mass in want else pr
        gl = sorted(((float(m), a) for m, a in dist), key=lambda t: t[0])
        wl = sorted(want.items(), key=lambda t: t[0])
        # the library rounds to the resolution after every convolution step, the oracle once: masses may differ in the last digit
        if len(gl) != len(wl) or any(abs(g[0] - w[0]) > 5e-5 for g, w in zip(gl, wl)):
            fn.why = f"peak masses differ: {[g[0] for g in gl]} vs {[w[0] for w in wl]}"
            return False
        for g, w in zip(gl, wl):
            props.append(SR.close(g[1], w[1], 1e-9))
        # abundance-weighted mean = average mass of the composition
        mean = 0
        for m, a in dist:
            mean = mean + a * m
        avg = 0
        for el in els:
            avg = avg + (ab[el][0] * table[el][0][0] + ab[el][1] * table[el][1][0]) * comp[el]
        props.append(SR.close(mean, avg, 1e-4))
        return z3.And(*props)

    fn.why = ""
    ob = run_e2("abundances/" + "".join(f"{k}{v}" for k, v in comp.items()) + f"/symbolic={sym_el}", "peaks = exact multinomial expansion; abundance-weighted mean = average mass",
                fn, functions=FUNCS, bounds="two-isotope model per element; the lighter-isotope abundance of one element symbolic in [0.05,0.95], the others real; <=3 atoms", replay=None, budget_s=100,
                max_paths=4000, timeout_ms=30000)
    if ob.status == CEX:
        ob.replayed = None
        ob.status = INCONCLUSIVE
        ob.detail = "[counterexample over symbolic isotope abundances; not replayable with the real table] " + (fn.why or ob.detail)
    return ob


def _merge_job(args) -> Obligation:
    import z3
    from .. import symreal as SR
    from ..e2lib import run_e2
    from peptacular.isotope import merge_isotopic_distributions
    masses1, masses2 = args

    def fn():
        a = [SR.real(f"a{i}") for i in range(len(masses1))]
        b = [SR.real(f"b{i}") for i in range(len(masses2))]
        d1 = list(zip(masses1, a))
        d2 = list(zip(masses2, b))
        got = merge_isotopic_distributions(list(d1), list(d2))
        want: Dict[float, Any] = {}
        for m, x in d1 + d2:
            want[m] = want[m] + x if m in want else x
        if [m for m, _ in got] != sorted(want):
            return False
        return z3.And(*[SR.T(x) == SR.T(want[m]) for m, x in got])

    return run_e2(f"merge/{masses1}+{masses2}", "merging adds abundances at equal masses and keeps the result sorted", fn, functions=FUNCS[4:5],
                  bounds="masses concrete (dictionary keys), abundances symbolic", replay=None, budget_s=30)


def _dispatch(job):
    kind, args = job
    if kind == "scaling":
        args, known = args
        out = [_scaling_job(args)]
        ob = out[0]
        if ob.status == CEX and ob.replayed and ob.finding in known:
            out.append(_scaling_job(args, excl=(ob.finding,)))      # the rest of the obligation, the finding's arithmetic assumed
        return out
    return [_dispatch1(job)]


def _dispatch1(job):
    kind, args = job
    return {"scaling": _scaling_job, "abundance": _abundance_job, "merge": _merge_job, "binning": _binning_job, "labels": _label_job, "estimate": _estimate_job}[kind](args)


def run(tier: str, seed: int, only=None) -> Report:
    comps = COMPS_T if tier == "quick" else COMPS_D
    known = tuple(f["id"] for f in load_known_findings(PID))
    jobs = []
    for comp in comps:
        for use_n, out_m in ((False, False), (True, False), (True, True)):
            for is_sum in (False, True):
                for wp in (False, True):
                    jobs.append(("scaling", ((comp, use_n, out_m, is_sum, wp), known)))
    for comp in SMALL:
        for el in comp:
            jobs.append(("abundance", (comp, el)))
    for comp in comps:
        for is_sum in (False, True):
            jobs.append(("binning", (comp, is_sum)))
    for mass0 in ((57.02, 300.0, 1234.5678, 4321.0) if tier == "quick" else (57.02, 113.084, 300.0, 799.36, 1234.5678, 2500.25, 4321.0)):
        for use_n, out_m in ((False, False), (True, False), (True, True)):
            for is_sum in (False, True):
                for th in (0.0, 0.001):
                    jobs.append(("estimate", (mass0, use_n, out_m, is_sum, th)))
    import re as _re
    import peptacular.constants as K
    labels = sorted(k for k in K.ATOMIC_SYMBOL_TO_ISOTOPE_MASSES_AND_ABUNDANCES if _re.match(r"^\d", k) or k in ("D", "T"))
    per = 40
    for i in range(0, len(labels), per):
        jobs.append(("labels", labels[i:i + per]))
    jobs += [("merge", ([1.0, 2.0], [2.0, 3.0])), ("merge", ([1.0, 2.5, 4.0], [0.5, 2.5])), ("merge", ([3.0, 1.0], [1.0, 3.0, 2.0])), ("merge", ([], [1.0]))]
    rep = Report(
        property_id=PID, tier=tier, seed=seed,
        explanation="isotopic_distribution loops range(count) and keys dictionaries by rounded masses, so compositions and isotope masses are "
                    "concrete; the requested abundance, the pruning threshold, the neutron mass and the e/p/n counts are z3 Reals (engine E2) "
                    "and, for formulas of at most 3 atoms, the isotope abundances themselves. Decided: sorted by mass; largest peak or total "
                    "= requested abundance; lightest peak = monoisotopic mass incl. particles; peaks = exact multinomial expansion and "
                    "weighted mean = average mass (polynomial identities in the abundances); merging adds abundances at equal masses.",
        functions=FUNCS,
        bounds="compositions " + ", ".join("".join(f"{k}{v}" for k, v in c.items()) for c in comps) + "; mass view, neutron-count view, neutron view with masses; "
               "is_abundance_sum both; with/without e/p/n (all three views; fractional counts included); symbolic-abundance clauses on " + ", ".join("".join(f"{k}{v}" for k, v in c.items()) for c in SMALL),
        outside="NOT claimed: counts up to 200; max_isotopes / distribution_resolution interplay (hash/round of masses are realisation "
                "points); estimate_isotopic_distribution; the neutron-offset view as a binning of the mass view",
        assumptions=["S5", "two-isotope model per element for the symbolic-abundance clauses", "lightest-peak clause asserted for threshold = 0 (no pruning)"],
    )
    with ProcessPoolExecutor(max_workers=NCPU, mp_context=mp.get_context("spawn")) as ex:
        rep.obligations = [o for lst in ex.map(_dispatch, jobs) for o in lst]
    return rep


def replay(rec: dict) -> int:
    print("record:", rec.get("detail"))
    return 1
