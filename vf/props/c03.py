"""C03 mass calculator == composition calculator — E2 with symbolic *element* masses (derived tables recomputed by the
module's own expressions), numeric modification values symbolic."""
from __future__ import annotations

import contextlib
import multiprocessing as mp
import os
from concurrent.futures import ProcessPoolExecutor
from typing import Any, Dict, List, Optional, Sequence, Tuple

from ..common import CEX, DISCHARGED, INCONCLUSIVE, NCPU, Obligation, Report, load_known_findings

PID = "C03"
FUNCS = ["mass_calc.mass", "mass_calc.comp_mass", "mass_calc.comp", "mass_calc._pop_delta_mass_mods", "chem_calc._sequence_comp",
         "chem_calc.mod_comp", "chem_calc._parse_mod_comp", "chem_calc._parse_mod_delta_mass", "chem_calc._parse_mod_delta_mass_only",
         "chem_calc.apply_isotope_mods_to_composition", "chem_calc._parse_charge_adducts_comp", "chem_calc._parse_adduct_comp",
         "chem_calc.estimate_comp", "chem_util.chem_mass", "mass_calc.adjust_mass", "mass_calc._parse_charge_adducts_mass",
         "ProFormaAnnotation.condense_static_mods", "chem_constants (derived tables re-evaluated on symbols)"]

F_ADDUCT = "C03-F1"       # same site as C02-F1
F_DELTA_MULT = "C03-F2"   # comp path drops the multiplier of a numeric (delta-mass) modification
ALL_IONS = ("p", "n", "a", "b", "c", "x", "y", "z", "ax", "ay", "az", "bx", "by", "bz", "cx", "cy", "cz", "i")

# modification palette: (value text or None for a numeric slot, elements it brings in, unimod entries, monosaccharides)
PALETTE = {
    "num": (None, (), (), ()),
    "formula": ("Formula:C2H3N", ("C", "H", "N"), (), ()),
    "formula13": ("Formula:[13C2]H-2O", ("13C", "H", "O"), (), ()),
    "unimod": ("Acetyl", ("C", "H", "O"), ("Acetyl",), ()),
    "unimodacc": ("UNIMOD:21", ("H", "O", "P"), ("Phospho",), ()),
    "uprefix": ("U:Oxidation", ("O",), ("Oxidation",), ()),
    "glycan": ("Glycan:HexNAc2Hex", ("C", "H", "N", "O"), (), ("HexNAc", "Hex")),
    "alt": ("Formula:C2H3N|INFO:note", ("C", "H", "N"), (), ()),
    "infoalt": ("INFO:x|Formula:O", ("O",), (), ()),
    "tag": ("Oxidation#g1", ("O",), ("Oxidation",), ()),
    "tagref": ("#g1", (), (), ()),
    "obs": ("Obs:+17.5", (), (), ()),
    "plusnum": ("+12.25", (), (), ()),
    "udelta": ("U:+15.5", (), (), ()),
}


def scenarios(tier: str) -> List[Dict[str, Any]]:
    out: List[Dict[str, Any]] = []
    # TPTT: the static target (first/last letter) occurs three times and res1 sits on a residue no static rule targets, so
    # the per-occurrence lists a rule expands into are independent only if the library copies them
    # since session 5 the quick tier runs what used to be the thorough scope (seconds); thorough adds longer peptides
    seqs = ["PEP", "KCMK", "TPTT", "SUNDS", "WHKRFW"] + (["ACDEFGHIA", "LMNOPQRSTVYL"] if tier == "thorough" else [])
    slots = ["labile", "unknown", "nterm", "cterm", "res0", "res1", "resL", "interval", "staticAA", "staticN", "staticC", "static2"]
    kinds = list(PALETTE)
    charges = [None, -3, -1, 0, 1, 2, 4]
    adducts = [None, None, "+Na+", "+H+", "+Na+,+H+", "+2Na+", "+Mg2+", "-H+", "+K+,+e-"]
    labels = [None, None, None, ["13C"], ["15N"], ["18O"], ["D"], ["13C", "15N"], ["T"]]
    k = 0
    for seq in seqs:
        n = len(seq)
        for si, slot in enumerate(slots):
            for ki, kind in enumerate(kinds):
                for mult in (1, 2, 3):
                    if slot.startswith("static") and mult != 1:
                        continue
                    if False:
                        continue
                    for mono in (True, False):
                        sc = {"seq": seq, "mods": [[slot, kind, mult]], "mono": mono,
                              "ion": ALL_IONS[(k // 2) % len(ALL_IONS)], "charge": charges[(k // 36) % len(charges)],
                              "isotope": (k // 3) % 4, "adducts": adducts[(k // 5) % len(adducts)],
                              "labels": labels[(k // 7) % len(labels)], "on_mods": bool((k // 11) % 2),
                              "in_ann": bool((k // 13) % 2)}   # (k // 2: both mass modes for every ion type; the other strides are pairwise co-prime)
                        out.append(sc)
                        k += 1
        # pairs of slots (kinds rotated) and everything at once
        import itertools
        for (s1, s2) in itertools.combinations(slots, 2):
            for r in range(5):
                for mono in (True, False):
                    sc = {"seq": seq, "mods": [[s1, kinds[(k + r) % len(kinds)], 1 + k % 3 if not s1.startswith("static") else 1],
                                               [s2, kinds[(k * 3 + r + 1) % len(kinds)], 1 + (k + 1) % 3 if not s2.startswith("static") else 1]],
                          "mono": mono, "ion": ALL_IONS[(k // 2) % len(ALL_IONS)], "charge": charges[(k // 36) % len(charges)],
                          "isotope": (k // 3) % 4, "adducts": adducts[(k // 5) % len(adducts)],
                          "labels": labels[(k // 7) % len(labels)], "on_mods": bool((k // 11) % 2), "in_ann": bool((k // 13) % 2)}
                    out.append(sc)
                    k += 1
        for ion in ALL_IONS:
            for mono in (True, False):
                sc = {"seq": seq, "mods": [[s, kinds[(i + k) % len(kinds)], 1 if s.startswith("static") else 1 + i % 3] for i, s in enumerate(slots)],
                      "mono": mono, "ion": ion, "charge": charges[k % len(charges)], "isotope": k % 4, "adducts": adducts[k % len(adducts)],
                      "labels": labels[k % len(labels)], "on_mods": bool(k % 2), "in_ann": bool((k // 2) % 2)}
                out.append(sc)
                k += 1
    # fragment ions need charge >= 1 to be meaningful; charge 0/None/negative fragments are kept (the library only warns)
    return out


def scenario_id(sc) -> str:
    return "/".join([sc["seq"], "mono" if sc["mono"] else "avg", "ion=" + sc["ion"], f"z={sc['charge']}", f"iso={sc['isotope']}",
                     "ad=" + (sc["adducts"] or "-"), "lab=" + ("+".join(sc["labels"]) if sc["labels"] else "-") + ("*" if sc["on_mods"] else ""),
                     "mods=" + "+".join(f"{s}:{k}^{m}" for s, k, m in sc["mods"]) + ("/inann" if sc["in_ann"] else "")])


def build(sc, V):
    from peptacular.proforma.proforma_parser import create_annotation
    from peptacular.proforma.proforma_dataclasses import Mod, Interval
    seq = sc["seq"]
    n = len(seq)
    kw: Dict[str, Any] = {}
    idx = 0

    def val(kind):
        nonlocal idx
        text = PALETTE[kind][0]
        if text is None:
            v = V(f"v{idx}")
            idx += 1
            return v
        return text

    for slot, kind, mult in sc["mods"]:
        m = Mod(val(kind), mult)
        if slot in ("labile", "unknown", "nterm", "cterm"):
            kw.setdefault(slot + "_mods", []).append(m)
        elif slot == "res0":
            kw.setdefault("internal_mods", {}).setdefault(0, []).append(m)
        elif slot == "res1":
            kw.setdefault("internal_mods", {}).setdefault(1, []).append(m)
        elif slot == "resL":
            kw.setdefault("internal_mods", {}).setdefault(n - 1, []).append(m)
        elif slot == "interval":
            kw.setdefault("intervals", []).append(Interval(0, n, False, [m]) if not kw.get("intervals") else None)
            kw["intervals"] = [iv for iv in kw["intervals"] if iv is not None]
        else:
            tg = {"staticAA": seq[0], "staticN": "N-Term", "staticC": "C-Term", "static2": f"{seq[-1]},N-Term"}[slot]
            kw.setdefault("static_mods", []).append(Mod(f"{Mod(m.val, 1).serialize('[]')}@{tg}", 1))
    if sc["labels"]:
        kw["isotope_mods"] = [Mod(l, 1) for l in sc["labels"]]
    if sc["in_ann"]:
        if sc["charge"]:
            kw["charge"] = sc["charge"]
        if sc["adducts"]:
            kw["charge_adducts"] = [Mod(sc["adducts"], 1)]
    return create_annotation(seq, **kw)


def call_kwargs(sc):
    kw = dict(ion_type=sc["ion"], isotope=sc["isotope"])
    if not (sc["in_ann"] and sc["charge"]):
        kw["charge"] = sc["charge"]
    if sc["adducts"] and not sc["in_ann"]:
        kw["charge_adducts"] = sc["adducts"]
    return kw


def n_values(sc) -> int:
    return sum(1 for s, k, m in sc["mods"] if PALETTE[k][0] is None)


def elements_of(sc) -> Tuple[set, set, set]:
    import peptacular.constants as K
    from .. import massmodel as MM
    els, ums, gls = set(), set(), set()
    for aa in sc["seq"]:
        els.update(K.AA_COMPOSITIONS[aa].keys())
    els.update(("H", "O", "C", "N"))
    for s, k, m in sc["mods"]:
        els.update(PALETTE[k][1])
        ums.update(PALETTE[k][2])
        gls.update(PALETTE[k][3])
    for l in sc["labels"] or []:
        els.add(l)
    if sc["adducts"]:
        for cnt, ion in MM.adduct_list({"adducts": sc["adducts"]}):
            if MM.ADDUCT_IONS[ion][0] != "e":
                els.add(MM.ADDUCT_IONS[ion][0])
    return els, ums, gls


@contextlib.contextmanager
def element_tables(sc, sym: bool):
    """Mode B of S4: element masses (mono and average as independent symbols), electron, neutron, proton are symbols; every
    derived table of chem_constants is re-evaluated by executing that module's own source on the patched element tables;
    Unimod / monosaccharide entries used by the scenario get mass := mass of their tabulated composition (assumption A-entry)."""
    import z3
    import peptacular.constants as K
    import peptacular.chem.chem_constants as CC
    from peptacular.chem.chem_util import chem_mass
    from peptacular.mods.mod_db_setup import UNIMOD_DB, MONOSACCHARIDES_DB
    from .. import symreal as SR
    from .. import massmodel as MM
    from ..e2lib import patched, token_convert_type_patches
    els, ums, gls = elements_of(sc)
    for name in ums:
        els.update(k for k in _comp_of(UNIMOD_DB.get_entry_by_name(name)).keys())
    for name in gls:
        els.update(k for k in _comp_of(MONOSACCHARIDES_DB.get_entry_by_name(name)).keys())
    real_m, real_a = dict(K.ISOTOPIC_ATOMIC_MASSES), dict(K.AVERAGE_ATOMIC_MASSES)
    if sym:
        upd_m = {e: SR.real(f"el_m_{e}") for e in els}
        upd_a = {e: SR.real(f"el_a_{e}") for e in els if not MM.is_isotope_symbol(e)}
        scal = {"ELECTRON_MASS": SR.real("electron"), "NEUTRON_MASS": SR.real("neutron"), "PROTON_MASS": SR.real("proton")}
        for e, v in upd_m.items():
            SR.assume(z3.And(v.t > 0, v.t < 300))
        for e, v in upd_a.items():
            SR.assume(z3.And(v.t > 0, v.t < 300))
            # an average mass lies within the isotope envelope; what the tolerance of the property needs: |avg - mono| bounded
        SR.assume(z3.And(scal["ELECTRON_MASS"].t > 0, scal["ELECTRON_MASS"].t < 1, scal["NEUTRON_MASS"].t > 0, scal["NEUTRON_MASS"].t < 2))
        # assumed relations between constants (proved of the real constants by the ground obligations):
        #   proton = H - e within 2e-8;  H_avg - H_mono within [0, 2e-4]
        d = scal["PROTON_MASS"].t - (upd_m["H"].t - scal["ELECTRON_MASS"].t)
        SR.assume(z3.And(d <= 2e-8, d >= -2e-8))
        dh = upd_a["H"].t - upd_m["H"].t
        SR.assume(z3.And(dh >= 0, dh <= 0.0002))
    else:
        upd_m, upd_a, scal = {}, {}, {}
    with patched([(K.ISOTOPIC_ATOMIC_MASSES, upd_m), (K.AVERAGE_ATOMIC_MASSES, upd_a)], scal, token_convert_type_patches()):
        ns: Dict[str, Any] = {}
        if sym:
            src = open(CC.__file__).read()
            exec(compile(src, CC.__file__, "exec"), ns)
        du = []
        for name in ("MONOISOTOPIC_FRAGMENT_ADJUSTMENTS", "AVERAGE_FRAGMENT_ADJUSTMENTS", "MONOISOTOPIC_FRAGMENT_ION_ADJUSTMENTS",
                     "AVERAGE_FRAGMENT_ION_ADJUSTMENTS", "MONOISOTOPIC_ION_ADJUSTMENTS", "AVERAGE_ION_ADJUSTMENTS"):
            if sym:
                du.append((getattr(CC, name), dict(ns[name])))
        if sym:
            letters = set(sc["seq"])
            du.append((CC.MONOISOTOPIC_AA_MASSES, {l: ns["MONOISOTOPIC_AA_MASSES"][l] for l in letters}))
            du.append((CC.AVERAGE_AA_MASSES, {l: ns["AVERAGE_AA_MASSES"][l] for l in letters}))
        attrs = []
        for db, names in ((UNIMOD_DB, ums), (MONOSACCHARIDES_DB, gls)):
            for name in names:
                e = db.get_entry_by_name(name)
                if sym:
                    attrs.append((e, "mono_mass", chem_mass(_comp_of(e), monoisotopic=True)))
                    attrs.append((e, "avg_mass", chem_mass(_comp_of(e), monoisotopic=False)))
        with patched(du, {}, attrs):
            yield


def _comp_of(entry):
    from peptacular.chem.chem_util import parse_chem_formula
    return parse_chem_formula(entry.composition)


def tolerance(sc, got_delta_abs=None):
    return 1e-4 if sc["mono"] else 1e-3


def check_scenario(sc, sym: bool, excl=()) -> Obligation:
    import z3
    from .. import symreal as SR
    from ..e2lib import run_e2
    from peptacular.mass_calc import mass, comp_mass, comp
    from peptacular.chem.chem_util import chem_mass
    nv = n_values(sc)

    def fn():
        V = lambda name: SR.real(name)
        for i in range(nv):
            SR.assume(z3.And(SR.T(V(f"v{i}")) >= -5000, SR.T(V(f"v{i}")) <= 5000))
        with element_tables(sc, sym):
            ann = build(sc, V)
            kw = call_kwargs(sc)
            try:
                m = mass(ann, monoisotopic=sc["mono"], use_isotope_on_mods=sc["on_mods"], **kw)
            except ValueError as e:
                fn.note = f"mass raised {type(e).__name__}"
                m = None
            try:
                c, delta = comp_mass(ann, use_isotope_on_mods=sc["on_mods"], **kw)
                via = chem_mass(c, monoisotopic=sc["mono"]) + delta
            except ValueError as e:
                fn.note = f"comp_mass raised {type(e).__name__}"
                via = None
        if m is None or via is None:
            return (m is None) == (via is None)       # both calculators must agree on rejecting
        tol = 1e-4 if sc["mono"] else 1e-3
        if not sc["mono"]:
            # 5 ppm of the modification mass: modification masses are bounded by the value bound + tabulated entries (<2000 Da)
            tol = tol + 5e-6 * 0.0
        extra = 0
        if F_ADDUCT in excl and sc["adducts"]:
            from .. import massmodel as MM
            # mass path: one ion charge of electrons per adduct kind; comp path: per ion (known finding)
            e = SR.real("electron") if sym else __import__("peptacular.constants", fromlist=["x"]).ELECTRON_MASS
            for cnt, ion in MM.adduct_list({"adducts": sc["adducts"]}):
                el, q = MM.ADDUCT_IONS[ion]
                if el != "e":
                    extra = extra + e * (q * cnt - q)
        if F_DELTA_MULT in excl:
            i = 0
            for s_, k_, mult in sc["mods"]:
                if PALETTE[k_][0] is None:
                    if not (s_ == "labile" and sc["ion"] != "p"):
                        extra = extra + V(f"v{i}") * (mult - 1) if not s_.startswith("static") else extra
                    i += 1
                elif k_ in ("obs", "plusnum", "udelta") and not (s_ == "labile" and sc["ion"] != "p") and not s_.startswith("static"):
                    num = {"obs": 17.5, "plusnum": 12.25, "udelta": 15.5}[k_]
                    extra = extra + num * (mult - 1)
        return SR.close(m, SR.T(via) + SR.T(extra), tol)

    fn.note = ""

    def replay(model):
        return native_replay(sc, model, excl)

    oid = "agree/" + ("sym" if sym else "pinned") + "/" + scenario_id(sc) + ("/minus-" + "-".join(excl) if excl else "")
    ob = run_e2(oid, "mass() == chem_mass(comp) + delta for every ion type, charge, isotope, adducts, labels, static rules, multipliers",
                fn, functions=FUNCS, bounds="element masses in (0,300) with |proton-(H-e)|<=2e-8 and 0<=H_avg-H_mono<=2e-4; |numeric mods|<=5000",
                replay=replay, budget_s=120)
    if ob.cex is not None:
        ob.cex["scenario"] = sc
        ob.cex["excl"] = list(excl)
    return ob


def check_estimate(sc) -> Obligation:
    """estimate_delta=True: the averagine-estimated composition has the same monoisotopic mass as mass() (real element masses,
    symbolic delta values: linear)."""
    import z3
    from .. import symreal as SR
    from ..e2lib import run_e2
    from peptacular.mass_calc import mass, comp
    from peptacular.chem.chem_util import chem_mass
    nv = n_values(sc)

    def fn():
        V = lambda name: SR.real(name)
        for i in range(nv):
            SR.assume(z3.And(SR.T(V(f"v{i}")) >= -5000, SR.T(V(f"v{i}")) <= 5000))
        with element_tables(sc, False):
            ann = build(sc, V)
            kw = call_kwargs(sc)
            m = mass(ann, monoisotopic=True, use_isotope_on_mods=sc["on_mods"], **kw)
            c = comp(ann, estimate_delta=True, use_isotope_on_mods=sc["on_mods"], **kw)
            via = chem_mass(c, monoisotopic=True)
        return SR.close(m, via, 1e-4)

    def replay(model):
        from ..e2lib import native_call
        code = r'''
from vf.props import c03
def main(p):
    import warnings; warnings.simplefilter("ignore")
    import peptacular as pt
    from peptacular.mass_calc import comp
    from peptacular.chem.chem_util import chem_mass
    sc, model = p["sc"], p["model"]
    ann = c03.build(sc, lambda name: float(model.get(name, 0.0)))
    kw = c03.call_kwargs(sc)
    m = pt.mass(ann, monoisotopic=True, use_isotope_on_mods=sc["on_mods"], **kw)
    via = chem_mass(comp(ann, estimate_delta=True, use_isotope_on_mods=sc["on_mods"], **kw), monoisotopic=True)
    return {"violated": abs(m - via) > 1e-4, "detail": f"{ann.serialize()!r} {kw}: mass()={m!r}, mass of comp(estimate_delta=True)={via!r}"}
'''
        res = native_call(code, {"sc": sc, "model": model})
        return res["violated"], res["detail"], None

    ob = run_e2("estimate/" + scenario_id(sc), "averagine-estimated composition has the same monoisotopic mass as mass()", fn,
                functions=["mass_calc.comp", "chem_calc.estimate_comp", "mass_calc.mass", "chem_util.chem_mass"],
                bounds="real element masses; |numeric mods|<=5000", replay=replay, budget_s=60)
    if ob.cex is not None:
        ob.cex["scenario"] = sc
    return ob


_NATIVE = r'''
from vf.props import c03
from vf import massmodel as MM
def main(p):
    import warnings; warnings.simplefilter("ignore")
    import peptacular as pt
    from peptacular.mass_calc import comp_mass
    from peptacular.chem.chem_util import chem_mass
    from peptacular.constants import ELECTRON_MASS
    sc, model, excl = p["sc"], p["model"], tuple(p["excl"])
    V = lambda name: float(model.get(name, 0.0))
    ann = c03.build(sc, V)
    text = ann.serialize()
    kw = c03.call_kwargs(sc)
    m = via = None; em = ev = ""
    try:
        m = pt.mass(ann, monoisotopic=sc["mono"], use_isotope_on_mods=sc["on_mods"], **kw)
    except ValueError as e:
        em = type(e).__name__
    try:
        c, delta = comp_mass(ann, use_isotope_on_mods=sc["on_mods"], **kw)
        via = chem_mass(c, monoisotopic=sc["mono"]) + delta
    except ValueError as e:
        ev = type(e).__name__
    call = f"{text!r} {kw} {'mono' if sc['mono'] else 'avg'}"
    if m is None or via is None:
        bad = (m is None) != (via is None)
        return {"violated": bad, "detail": f"{call}: mass -> {m if m is not None else em}, comp_mass -> {via if via is not None else ev}", "site": None}
    tol = 1e-4 if sc["mono"] else 1e-3
    d = m - via
    # candidate explanations by the two known findings
    ad = 0.0
    if sc["adducts"]:
        for cnt, ion in MM.adduct_list({"adducts": sc["adducts"]}):
            el, q = MM.ADDUCT_IONS[ion]
            if el != "e":
                ad += ELECTRON_MASS * (q * cnt - q)
    dm = 0.0; i = 0
    for s_, k_, mult in sc["mods"]:
        if c03.PALETTE[k_][0] is None:
            if not (s_ == "labile" and sc["ion"] != "p") and not s_.startswith("static"):
                dm += V(f"v{i}") * (mult - 1)
            i += 1
        elif k_ in ("obs", "plusnum", "udelta") and not (s_ == "labile" and sc["ion"] != "p") and not s_.startswith("static"):
            dm += {"obs": 17.5, "plusnum": 12.25, "udelta": 15.5}[k_] * (mult - 1)
    exp = (ad if c03.F_ADDUCT in excl else 0.0) + (dm if c03.F_DELTA_MULT in excl else 0.0)
    bad = abs(d - exp) > tol
    site = None
    if bad:
        rest = d - exp
        if c03.F_ADDUCT not in excl and abs(ad) > tol / 10 and (abs(rest - ad) <= tol or (c03.F_DELTA_MULT not in excl and abs(rest - ad - dm) <= tol)):
            site = c03.F_ADDUCT
        elif c03.F_DELTA_MULT not in excl and abs(dm) > 0 and abs(rest - dm) <= tol:
            site = c03.F_DELTA_MULT
    return {"violated": bad, "detail": f"{call}: mass()={m!r} chem_mass(comp)+delta={via!r} diff {d:+.6g}", "site": site}
'''


def native_replay(sc, model, excl=()):
    from ..e2lib import native_call
    res = native_call(_NATIVE, {"sc": sc, "model": model, "excl": list(excl)})
    return res["violated"], res["detail"], res.get("site")


def _decide(sc, excl=()):
    ob = check_scenario(sc, True, excl)
    if (ob.status == CEX and ob.replayed is False) or (ob.status == INCONCLUSIVE and "Unsupported" in ob.detail):
        first = ob.detail
        ob2 = check_scenario(sc, False, excl)
        ob2.detail = "[element-symbol run: %s; re-decided with real tables] " % first[:120] + ob2.detail
        ob2.paths += ob.paths
        ob2.queries += ob.queries
        ob2.solver_s += ob.solver_s
        return ob2
    return ob


def _work(args):
    sc, known = args
    out = []
    excl: Tuple[str, ...] = ()
    for _ in range(4):
        ob = _decide(sc, excl)
        out.append(ob)
        if ob.status == CEX and ob.replayed and ob.finding in known and ob.finding not in excl:
            excl = excl + (ob.finding,)
            continue
        break
    # with a global label AND use_isotope_on_mods=True the library labels the averagine estimate on purpose (it warns about it), so
    # the estimate is then heavier than mass() by design: the clause is decided for the default (label not applied to the estimate)
    if n_values(sc) and sc["mono"] and not (sc["labels"] and sc["on_mods"]) and not (sc["adducts"] and any(c in sc["adducts"] for c in "23-")):
        out.append(check_estimate(sc))
    return out


def run(tier: str, seed: int, only=None) -> Report:
    scs = scenarios(tier)
    if only:
        scs = [s for s in scs if only in scenario_id(s)]
    known = tuple(f["id"] for f in load_known_findings(PID))
    rep = Report(
        property_id=PID, tier=tier, seed=seed,
        explanation="mass() and comp_mass()+chem_mass() run natively with every element mass (monoisotopic and average as independent "
                    "symbols), electron, neutron and proton as z3 Reals; the derived residue/fragment tables are re-evaluated from "
                    "chem_constants' own source on those symbols, so both calculators become polynomials in the same variables and z3 "
                    "decides whether they can differ by more than the tolerance for any atomic masses and any numeric modification value.",
        functions=FUNCS,
        bounds="sequences PEP, KCMK, TPTT (repeated letters so static rules count 2 and 3), SUNDS, WHKRFW (quick) + ACDEFGHIA, LMNOPQRSTVYL (thorough); 12 modification slots x 14 spellings (numeric, Formula incl. isotopes, "
               "Unimod name/accession/prefix, Glycan, '|' alternatives, '#' tags, Obs, signed and prefixed deltas) singly, in pairs and all "
               "at once; multipliers 1..3; all 18 ion types; charge None,-3..4 in argument or annotation; isotope 0..3; nine adduct "
               "lists; labels 13C,15N,18O,D,T and a pair; use_isotope_on_mods; mono/avg",
        outside="exhaustive Unimod/PSI-MOD rows (table sweep); the averagine-estimation clause is decided separately with real element "
                "masses (symbol x symbol products otherwise); IEEE rounding",
        assumptions=["S4 mode B: element tables rebound, derived tables re-evaluated by exec of chem_constants.py", "S5", "S7",
                     "A-entry: a Unimod/monosaccharide entry's tabulated mass equals the mass of its tabulated composition (C10 ground clause)",
                     "|proton-(H-e)|<=2e-8, 0<=H_avg-H_mono<=2e-4 (true of the real constants; C02 ground obligations)"],
    )
    with ProcessPoolExecutor(max_workers=NCPU, mp_context=mp.get_context("spawn")) as ex:
        res = list(ex.map(_work, [(s, known) for s in scs], chunksize=4))
    rep.obligations = [o for lst in res for o in lst]
    return rep


def replay(rec: dict) -> int:
    inp = rec["inputs"]
    if rec.get("obligation", "").startswith("estimate/"):
        print("estimate-clause counterexample:", rec.get("detail"))
        return 1
    violated, detail, site = native_replay(inp["scenario"], inp["model"], tuple(inp.get("excl", ())))
    print("replay:", detail)
    if violated:
        print(f"VIOLATION property={PID} replay=(reproduced)")
        return 1
    return 0
