"""C10 one modification, many spellings — kernels: E1 string lemmas for prefix handling, E2 for the generic forms, E0 ground
obligations for the entries other checks rely on.  The vocabulary-exhaustive sweep has no free variable and is not applicable."""
from __future__ import annotations

import multiprocessing as mp
import time
from concurrent.futures import ProcessPoolExecutor
from typing import Any, Dict, List

from ..ch import Cond, run_conds
from ..common import CEX, DISCHARGED, INCONCLUSIVE, NCPU, Obligation, Report, load_known_findings

PID = "C10"
FUNCS = ["mod_db._strip_unimod_str/_strip_psi_str/_strip_xlmod_str/_strip_resid_str/_strip_gno_str", "mod_db.is_unimod_str/is_psi_mod_str/is_xlmod_str",
         "mod_db._get_mass", "mod_db.parse_unimod_mass/parse_psi_mass", "mass_calc.mod_mass", "mass_calc._parse_mod_mass", "chem_calc.mod_comp",
         "mass_calc._parse_chem_mass_from_proforma_str", "mass_calc._parse_glycan_mass_from_proforma_str", "mass_calc._parse_obs_mass_from_proforma_str"]

# representative real names per punctuation signature found in the bundled OBO files
REAL_NAMES = ["Acetyl", "Label:13C(6)", "Delta:H(2)C(2)", "Cation:Na", "Hex(1)HexNAc(1)NeuAc(2)", "Xlink:DSS[156]", "15N-oxobutanoic", "N-acetyl-L-alanine",
              "O4'-(phospho-5'-adenosine)-L-tyrosine", "2-amino-3-oxo-butanoic_acid", "dHex(1)Hex(3)HexNAc(4)", "Ub+Br", "a,b-didehydro"]


def e1_conds(tier: str) -> List[Cond]:
    from ..h import c10 as H
    conds: List[Cond] = []
    t = 90 if tier == "quick" else 900
    nlen = 2 if tier == "quick" else 3
    k = 0
    for db, (_, _, prefixes) in H.PREFIXES.items():
        for pi, pref in enumerate(prefixes):
            nalpha = sum(1 for c in pref if c.isalpha())
            # case variants of the prefix: the mask is part of the shape for long prefixes (str.lower() on symbolic text is costly)
            masks = [None] if nalpha <= 1 else ([0, 2 ** nalpha - 1, 1] if tier == "quick" else list(range(2 ** nalpha)))
            for mk in masks:
                mpre = [f"0 <= mask < {2 ** nalpha}"] + ([f"mask == {mk}"] if mk is not None else [])
                conds.append(Cond(oid=f"strip/{db}/{pref}/mask={mk}/short", clause="strip(prefix + name) == name and the prefixed spelling is recognised, for every case variant of the prefix and every name",
                                  module="vf.h.c10", func="o_strip", shape=dict(db=db, pi=pi, left="", right=""), sym=[("mask", "int"), ("mid", "str")],
                                  pre=mpre + [f"len(mid) <= {nlen}", ("all(c in ':aZ[(1+ ' for c in mid)" if tier == "quick" else "all(ord(c) < 128 for c in mid)")],
                                  timeout=t, functions=FUNCS[:2],
                                  bounds=f"name: every string of length <= {nlen} over " + ("the 8 characters ':aZ[(1+ '" if tier == "quick" else "ASCII") + f"; case variant {mk if mk is not None else 'all'} of {pref!r}"))
            for ni, real in enumerate(REAL_NAMES):
                k += 1
                if tier == "quick" and (k % 4 or len(real) > 16):
                    continue
                cut = len(real) // 2
                conds.append(Cond(oid=f"strip/{db}/{pref}/real={real}", clause="same lemma for real names with one arbitrary character spliced in",
                                  module="vf.h.c10", func="o_strip", shape=dict(db=db, pi=pi, left=real[:cut], right=real[cut:]), sym=[("mask", "int"), ("mid", "str")],
                                  pre=[f"mask == {(ni * 3) % (2 ** nalpha)}", "len(mid) <= 1", "all(ord(c) < 128 for c in mid)"], timeout=t, functions=FUNCS[:2],
                                  bounds=f"name {real!r} with an arbitrary ASCII character (or none) inserted in the middle"))
    return conds


# ------------------------------------------------------------------------------------------------ E2 generic forms

def e2_jobs(tier: str):
    J = []
    for mono in (True, False):
        for mult in (1, 2, 3):
            J.append(("entry", dict(mono=mono, mult=mult)))
            J.append(("generic", dict(mono=mono, mult=mult)))
    return J


def _comp_outcome(text, mult):
    """('comp', sorted items) or ('error', exception name) of mod_comp"""
    from peptacular.chem.chem_calc import mod_comp
    from peptacular.proforma.proforma_dataclasses import Mod
    try:
        return ("comp", sorted(mod_comp(Mod(text, mult)).items()))
    except ValueError as err:
        return ("error", type(err).__name__)


# generic forms: the composition mod_comp must report (per multiplier 1), None = "has no composition" (an error)
COMP_FORMS = {
    "Acetyl": {"C": 2, "H": 2, "O": 1}, "Acetyl|Formula:C2H3": {"C": 2, "H": 2, "O": 1}, "INFO:note|Acetyl": {"C": 2, "H": 2, "O": 1},
    "INFO:a|Acetyl|INFO:b": {"C": 2, "H": 2, "O": 1}, "Obs:+42.0106|UNIMOD:1|INFO:x": {"C": 2, "H": 2, "O": 1}, "INFO:a|INFO:b|Acetyl": {"C": 2, "H": 2, "O": 1},
    "INFO:a|Formula:C2H3|Glycan:Hex|Acetyl": {"C": 2, "H": 3}, "+15.5|INFO:b|Formula:O|Acetyl": {"O": 1},
    "Acetyl#g1": {"C": 2, "H": 2, "O": 1}, "Acetyl#g1(0.75)": {"C": 2, "H": 2, "O": 1}, "#g1": {},
    "Formula:C2H3": {"C": 2, "H": 3}, "Formula:[13C2]N": {"13C": 2, "N": 1}, "Formula:H-2O": {"H": -2, "O": 1}, "formula:C2H3": {"C": 2, "H": 3},
    "Glycan:Hex": {"C": 6, "H": 10, "O": 5}, "U:Acetyl": {"C": 2, "H": 2, "O": 1}, "UNIMOD:1": {"C": 2, "H": 2, "O": 1},
    "+15.5": None, "Obs:+15.5": None, "INFO:x": None, "U:+15.5": None,
}


def comp_form_problems(mult):
    bad = []
    for text, want in COMP_FORMS.items():
        got = _comp_outcome(text, mult)
        exp = ("comp", sorted((k, v * mult) for k, v in want.items())) if want is not None else None
        if (exp is None and got[0] != "error") or (exp is not None and got != exp):
            bad.append(f"mod_comp({text!r} x{mult}) -> {got[1]}, expected {'an error (no composition)' if exp is None else dict(exp[1])}")
    return bad


def _entry_job(cfg) -> Obligation:
    """every spelling of a vocabulary entry resolves to the entry's (symbolic) mass times the multiplier"""
    import z3
    from .. import symreal as SR
    from ..e2lib import run_e2, patched
    from peptacular.mass_calc import mod_mass
    from peptacular.proforma.proforma_dataclasses import Mod
    from peptacular.mods.mod_db_setup import UNIMOD_DB, PSI_MOD_DB
    mono, mult = cfg["mono"], cfg["mult"]
    picks = []
    for db, prefixes, names in ((UNIMOD_DB, ["UNIMOD:", "U:", "unimod:", "u:", "UniMod:"], ["Acetyl", "Label:13C(6)", "Delta:H(2)C(2)", "Cation:Na", "Xlink:DSS[156]", "Hex(1)HexNAc(1)NeuAc(2)"]),
                                (PSI_MOD_DB, ["MOD:", "M:", "PSI-MOD:", "mod:", "m:", "psi-mod:", "Mod:"], None)):
        if names is None:
            names = [n for n in list(db.name_map)[:4000] if any(ch in n for ch in ":[(") ][:3] + list(db.name_map)[:2]
        for n in names:
            if db.contains_name(n):
                picks.append((db, prefixes, n))

    def fn():
        props = []
        attrs = []
        syms = {}
        for k, (db, prefixes, n) in enumerate(picks):
            e = db.get_entry_by_name(n)
            syms[k] = (SR.real(f"m{k}"), SR.real(f"a{k}"))
            attrs += [(e, "mono_mass", syms[k][0]), (e, "avg_mass", syms[k][1])]
        with patched([], {}, attrs):
            for k, (db, prefixes, n) in enumerate(picks):
                e = db.get_entry_by_name(n)
                want = (syms[k][0] if mono else syms[k][1])
                acc = e.id.split(":")[-1]
                spellings = [n] + [p + n for p in prefixes] + [p + acc for p in prefixes]
                ref_comp = _comp_outcome(n, mult)
                # an earlier, coarsely rounded query of the same spelling (precision is a per-call option: what a spelling
                # means must not depend on what was asked before)
                try:
                    mod_mass(n, monoisotopic=mono, precision=2)
                except ValueError:
                    pass
                for sp in spellings:
                    try:
                        got = mod_mass(Mod(sp, mult), monoisotopic=mono)
                    except ValueError as err:
                        fn.why = f"spelling {sp!r} of entry {n!r} is rejected: {type(err).__name__}"
                        return False
                    props.append(SR.T(got) == SR.T(want) * mult)
                    if _comp_outcome(sp, mult) != ref_comp:         # the same composition - or the same error - through every spelling
                        fn.why = f"composition through {sp!r}: {_comp_outcome(sp, mult)} but through the bare name {n!r}: {ref_comp}"
                        return False
        return z3.And(*props)

    fn.why = ""

    def replay(model):
        from ..e2lib import native_call
        code = r"""
from vf.props import c10
def main(p):
    import peptacular as pt
    from peptacular.proforma.proforma_dataclasses import Mod
    from peptacular.mods.mod_db_setup import UNIMOD_DB, PSI_MOD_DB
    bad = []
    for dbn, prefixes, n in p["picks"]:
        db = UNIMOD_DB if dbn == "unimod" else PSI_MOD_DB
        e = db.get_entry_by_name(n)
        acc = e.id.split(":")[-1]
        def outcome(text):
            try:
                return ("value", pt.mod_mass(Mod(text, p["mult"]), monoisotopic=p["mono"]))
            except ValueError as err:
                return ("error", type(err).__name__)
        try:
            pt.mod_mass(n, monoisotopic=p["mono"], precision=2)      # the earlier rounded query (as in the symbolic run)
        except ValueError:
            pass
        ref = outcome(n)        # the same mass - or the same error - through every spelling
        for sp in [q + n for q in prefixes] + [q + acc for q in prefixes]:
            got = outcome(sp)
            same = got[0] == ref[0] and (abs(got[1] - ref[1]) <= 1e-5 if got[0] == "value" else got[1] == ref[1])
            if not same:
                bad.append(f"{sp!r} -> {got[1]} (bare name -> {ref[1]})")
            if c10._comp_outcome(sp, p["mult"]) != c10._comp_outcome(n, p["mult"]):
                bad.append(f"composition through {sp!r}: {c10._comp_outcome(sp, p['mult'])[1]} (bare name -> {c10._comp_outcome(n, p['mult'])[1]})")
    return {"violated": bool(bad), "detail": "; ".join(bad[:4])}
"""
        res = native_call(code, {"picks": [("unimod" if db is UNIMOD_DB else "psi", pf, n) for db, pf, n in picks], "mono": mono, "mult": mult})
        return res["violated"], res["detail"], None

    ob = run_e2(f"E2/entry-spellings/{'mono' if mono else 'avg'}/x{mult}", "every spelling of an entry (bare name, prefixed name, prefixed accession, case variants) resolves to the entry's mass x multiplier",
                fn, functions=FUNCS[2:5], bounds=f"{len(picks)} entries incl. names with colons/brackets; entry masses symbolic", replay=replay, budget_s=60)
    if ob.status == CEX and ob.cex is not None:
        ob.cex["structural"] = fn.why
        if fn.why:
            ob.detail = fn.why + " | " + ob.detail
    return ob


def _generic_job(cfg) -> Obligation:
    import z3
    from .. import symreal as SR
    from .. import massmodel as MM
    from ..e2lib import run_e2, patched, token_convert_type_patches
    from peptacular.mass_calc import mod_mass
    from peptacular.proforma.proforma_dataclasses import Mod
    import peptacular.mods.mod_db as DBM
    import peptacular.mass_calc as MC
    import peptacular.chem.chem_calc as CCALC
    import builtins
    mono, mult = cfg["mono"], cfg["mult"]

    class _Meta(type):
        def __instancecheck__(cls, inst):
            return isinstance(inst, builtins.float)

    class tokfloat(float, metaclass=_Meta):
        """stands in for the name `float` inside the patched modules: float(token) -> the symbol; isinstance(x, float) unchanged"""
        def __new__(cls, x=0.0):
            s = SR.untoken(x) if SR.CTX is not None else None
            return s if s is not None else builtins.float(x)

    class _Rejected(Exception):
        pass

    def fn():
        try:
            return fn_()
        except _Rejected as r:
            fn.why = str(r)
            return False

    def fn_():
        env = MM.Env(sym=True)
        v = SR.real("v")
        SR.assume(z3.And(v.t >= -5000, v.t <= 5000))
        sc = {"seq": "G", "internal": {"0": [["formula", "C2H3", 1], ["formula", "[13C2]N", 1], ["formula", "H-2O", 1], ["glycan", "HexNAc2Hex3", 1], ["unimod", "Acetyl", 1]]}}
        props = []
        attrs = [(DBM, "float", tokfloat), (MC, "float", tokfloat), (CCALC, "float", tokfloat)]
        with MM.symbolic_tables([sc], env, ions=()):
            with patched([], {}, attrs):
                for nm, s_ in list(env.symbols.items()):
                    SR.assume(z3.And(SR.T(s_) > 0, SR.T(s_) < 1000))
                def M(text):
                    try:
                        return mod_mass(Mod(text, mult), monoisotopic=mono)
                    except ValueError as err:       # a spelling of the corpus that must resolve is rejected
                        raise _Rejected(f"{text!r} -> {type(err).__name__}")
                el = lambda e: env.el(e, mono)
                # a prefixed signed number is that mass shift
                for pref in ("U:", "UNIMOD:", "M:", "MOD:", "X:", "R:", "G:", "Obs:"):
                    props.append(SR.T(M(f"{pref}+{v}")) == v.t * mult)
                props.append(SR.T(M(f"{v}")) == v.t * mult)
                # Formula / Glycan give the mass of what they spell
                props.append(SR.T(M("Formula:C2H3")) == SR.T(el("C") * 2 + el("H") * 3) * mult)
                props.append(SR.T(M("Formula:[13C2]N")) == SR.T(el("13C") * 2 + el("N")) * mult)
                props.append(SR.T(M("Formula:H-2O")) == SR.T(el("H") * -2 + el("O")) * mult)
                props.append(SR.T(M("formula:C2H3")) == SR.T(el("C") * 2 + el("H") * 3) * mult)
                props.append(SR.T(M("Glycan:HexNAc2Hex3")) == SR.T(env.mono_sacch("HexNAc", mono) * 2 + env.mono_sacch("Hex", mono) * 3) * mult)
                props.append(SR.T(M("Glycan:Hex")) == SR.T(env.mono_sacch("Hex", mono)) * mult)
                # '|' takes the first resolvable alternative; '#' tags do not change the mass; INFO is skipped
                ac = env.unimod("Acetyl", mono)
                props.append(SR.T(M("Acetyl|Formula:C2H3")) == SR.T(ac) * mult)
                props.append(SR.T(M("INFO:note|Acetyl")) == SR.T(ac) * mult)
                props.append(SR.T(M("INFO:note|Formula:C2H3|Acetyl")) == SR.T(el("C") * 2 + el("H") * 3) * mult)
                props.append(SR.T(M("Acetyl#g1")) == SR.T(ac) * mult)
                props.append(SR.T(M("Acetyl#g1(0.75)")) == SR.T(ac) * mult)
                props.append(SR.T(M("#g1")) == 0)
                props.append(SR.T(M(f"+{v}#s2")) == v.t * mult)
                # the composition side of the same generic forms (concrete: compositions are integer dictionaries)
                probs = comp_form_problems(mult)
                if probs:
                    raise _Rejected("; ".join(probs[:3]))
        return z3.And(*props)

    def replay(model):
        from ..e2lib import native_call
        code = r"""
def main(p):
    import peptacular as pt
    from peptacular.proforma.proforma_dataclasses import Mod
    import peptacular.constants as K
    from peptacular.mods.mod_db_setup import UNIMOD_DB, MONOSACCHARIDES_DB
    mono, mult, v = p["mono"], p["mult"], p["v"]
    M = lambda t: pt.mod_mass(Mod(t, mult), monoisotopic=mono)
    el = lambda e: K.ISOTOPIC_ATOMIC_MASSES[e] if (mono or e[0].isdigit()) else K.AVERAGE_ATOMIC_MASSES[e]
    ms = lambda n: (MONOSACCHARIDES_DB.get_entry_by_name(n).mono_mass if mono else MONOSACCHARIDES_DB.get_entry_by_name(n).avg_mass)
    ac = UNIMOD_DB.get_entry_by_name("Acetyl").mono_mass if mono else UNIMOD_DB.get_entry_by_name("Acetyl").avg_mass
    exp = {f"{q}{v:+}": v for q in ("U:", "UNIMOD:", "M:", "MOD:", "X:", "R:", "G:", "Obs:")}
    exp.update({f"{v:+}": v, f"{v:+}#s2": v, "Acetyl#g1(0.75)": ac, "Glycan:Hex": ms("Hex"), "formula:C2H3": 2*el("C")+3*el("H")})
    exp.update({"Formula:C2H3": 2*el("C")+3*el("H"), "Formula:[13C2]N": 2*el("13C")+el("N"), "Formula:H-2O": -2*el("H")+el("O"),
                "Glycan:HexNAc2Hex3": 2*ms("HexNAc")+3*ms("Hex"), "Acetyl|Formula:C2H3": ac, "INFO:note|Acetyl": ac, "Acetyl#g1": ac, "#g1": 0.0,
                "INFO:note|Formula:C2H3|Acetyl": 2*el("C")+3*el("H")})
    bad = []
    for t, w in exp.items():
        try:
            g = M(t)
            if abs(g - w * mult) > 1e-5: bad.append(f"{t!r} -> {g} expected {w*mult}")
        except ValueError as e:
            bad.append(f"{t!r} -> {type(e).__name__}")
    from vf.props import c10
    bad += c10.comp_form_problems(mult)
    return {"violated": bool(bad), "detail": "; ".join(bad[:4])}
"""
        res = native_call(code, {"mono": mono, "mult": mult, "v": model.get("v", 1.5)})
        return res["violated"], res["detail"], None

    fn.why = ""
    return run_e2(f"E2/generic-forms/{'mono' if mono else 'avg'}/x{mult}",
                  "prefixed signed number = that shift; Formula/Glycan/Obs = the mass of what they spell; '|' first resolvable; '#' tags neutral; multiplier multiplies",
                  fn, functions=FUNCS[4:], bounds="value in [-5000,5000]; element, monosaccharide and Unimod entry masses symbolic", replay=replay, budget_s=60)


def _dispatch(job):
    kind, cfg = job
    ob = _entry_job(cfg) if kind == "entry" else _generic_job(cfg)
    return ob


def ground_obligations() -> List[Obligation]:
    """E0: tabulated mass = mass of tabulated composition for the entries the other checks' assumption A-entry uses"""
    import z3
    from ..smt import prove, rat
    from peptacular.mods.mod_db_setup import UNIMOD_DB, MONOSACCHARIDES_DB
    from peptacular.chem.chem_util import parse_chem_formula
    from .. import oracles as O
    out = []
    # one representative Unimod entry per *composition token* of the source table (Hex, HexNAc, NeuAc, Ac, Me, dHex, Pent, Kdn,
    # 13C, ...): the tokens are read from unimod.obo at run time; the loader's token->composition expansion is what is checked
    import os, re
    import peptacular
    obo = os.path.join(os.path.dirname(peptacular.__file__), "data", "unimod.obo")
    token_rep: Dict[str, str] = {}
    name = None
    for line in open(obo, encoding="utf-8", errors="replace"):
        if line.startswith("name: "):
            name = line[6:].strip()
        elif line.startswith("xref: delta_composition") and name:
            comp_txt = line.split('"')[1] if '"' in line else ""
            for tok in re.findall(r"([A-Za-z0-9]+)(?:\(-?\d+\))?", comp_txt):
                if tok not in token_rep and UNIMOD_DB.contains_name(name):
                    token_rep[tok] = name
    token_names = sorted(set(token_rep.values()))
    for db, names, tol in ((UNIMOD_DB, sorted(set(["Acetyl", "Oxidation", "Phospho", "Carbamidomethyl", "Methyl", "Amidated", "Formyl"] + token_names)), 1e-3),
                           (MONOSACCHARIDES_DB, ["Hex", "HexNAc", "Fuc", "Neu5Ac", "Pen", "HexN"], 1e-3)):
        for n in names:
            e = db.get_entry_by_name(n)
            if e is None or e.composition is None or e.mono_mass is None:
                continue
            comp = parse_chem_formula(e.composition)
            import peptacular.constants as K
            from fractions import Fraction

            def _m(el):
                if el[0].isdigit() or el in ("D", "T"):
                    try:
                        return O.isotope(el)
                    except KeyError:
                        return Fraction(K.ISOTOPIC_ATOMIC_MASSES[el])
                if el in O.ISOTOPES:
                    return O.mono(el)
                return Fraction(K.ISOTOPIC_ATOMIC_MASSES[el])       # element outside the independent table: the library's own value
            ref = sum(_m(el) * cnt for el, cnt in comp.items())
            t0 = time.time()
            claim = z3.And(rat(e.mono_mass) - rat(ref) <= rat(tol), rat(ref) - rat(e.mono_mass) <= rat(tol))
            r, dt, _ = prove(claim)
            o = Obligation(oid=f"ground/{db.entry_type if hasattr(db, 'entry_type') else 'db'}/{n}", clause="tabulated monoisotopic mass = mass of the tabulated composition (independent atomic masses)",
                           engine="E0 z3 QF_LRA", paths=1, queries=1, solver_s=dt, wall_s=time.time() - t0)
            if r == "unsat":
                o.status, o.detail, o.witness = DISCHARGED, "unsat", {"tabulated": e.mono_mass, "from_composition": float(ref)}
            elif r == "sat":
                o.status, o.replayed = CEX, True
                o.cex = {"entry": n, "tabulated": e.mono_mass, "from_composition": float(ref)}
                o.detail = f"{n}: tabulated {e.mono_mass} vs composition {float(ref)}"
            out.append(o)
    return out


def run(tier: str, seed: int, only=None) -> Report:
    from ..ch import tier_conds
    conds = tier_conds(e1_conds, tier, cap=220)
    if only:
        conds = [c for c in conds if only in c.oid]
    rep = Report(
        property_id=PID, tier=tier, seed=seed,
        explanation="Kernels only. (a) E1: the lookup of every vocabulary is _get_mass(DB, strip(s), s), so spelling-independence of an entry is "
                    "exactly strip-correctness for its name: for every documented prefix in every case variant and every name (all ASCII strings of "
                    "length <=2/3, and real names with colons, brackets, quotes, commas, plus signs with an arbitrary character "
                    "spliced in) strip(prefix+name) == name and the spelling is recognised. (b) E2: every spelling of selected entries resolves "
                    "to the entry's symbolic mass x multiplier; the generic forms (prefixed signed number, Formula, Glycan, Obs, '|', '#', ^n) "
                    "give the mass of what they spell for all element/monosaccharide/entry masses. (c) E0 ground: tabulated mass vs composition "
                    "for the entries other checks assume consistent.",
        functions=FUNCS, bounds="prefixes unimod:/u:/mod:/m:/psi-mod:/xlmod:/x:/resid:/r:/gno:/g: in all case variants; names: ASCII strings of length <=2 (quick) / <=3 (thorough) and 13 real names + 1 spliced ASCII character",
        outside="NOT APPLICABLE to the solver: the exhaustive clause over 1522 Unimod + 1978 PSI-MOD + 1101 XLMOD + 27 monosaccharide entries x spellings x "
                "{mono, avg, composition} and 'tabulated mass = mass of tabulated composition' for every entry: a table sweep without a free variable; it is not run by another technique",
        assumptions=["S4, S5, S7 (token-aware float() in mod_db/mass_calc/chem_calc for values embedded in text)"],
    )
    obs = run_conds(conds, PID, known=load_known_findings(PID))
    if not only or "E2" in only or "ground" in only:
        with ProcessPoolExecutor(max_workers=NCPU, mp_context=mp.get_context("spawn")) as ex:
            obs += list(ex.map(_dispatch, e2_jobs(tier)))
        obs += ground_obligations()
    rep.obligations = obs
    return rep


def replay(rec: dict) -> int:
    from ..ch import replay_native
    inp = rec["inputs"]
    if "call" not in inp:
        print("record:", rec.get("detail"))
        return 1
    mod, func = inp["call"].rsplit(".", 1)
    r = replay_native(mod, func, {}, {"kwargs": inp["kwargs"]}, [])
    print("replay:", r.get("ok"), r.get("exc") or r.get("last"))
    if r.get("ok") is False:
        print(f"VIOLATION property={PID} replay=(reproduced)")
        return 1
    return 0
