"""C04 fragmentation enumerates every ion once and agrees with the mass calculator — E2 (symreal)."""
from __future__ import annotations

import itertools
import multiprocessing as mp
import re as _re
from concurrent.futures import ProcessPoolExecutor
from typing import Any, Dict, List, Optional, Tuple

from ..common import CEX, DISCHARGED, INCONCLUSIVE, NCPU, Obligation, Report, load_known_findings

PID = "C04"
FUNCS = ["fragmentation.fragment", "fragmentation.Fragmenter", "fragmentation._build_fragments", "fragmentation.get_losses",
         "fragmentation.get_number", "fragmentation.get_label", "fragmentation._get_terminal_fragments",
         "fragmentation._get_internal_fragments", "fragmentation._get_immonium_fragments", "mass_calc.mass",
         "mass_calc.adjust_mass", "mass_calc.adjust_mz", "ProFormaAnnotation.split", "ProFormaAnnotation.slice",
         "spans.build_left_semi_spans", "spans.build_right_semi_spans", "spans.build_non_enzymatic_spans"]

FWD, BWD = ("a", "b", "c"), ("x", "y", "z")
INTERNAL = ("ax", "ay", "az", "bx", "by", "bz", "cx", "cy", "cz")
ALL16 = FWD + BWD + INTERNAL + ("i",)
TOL = {True: 1e-5, False: 2e-3}

F_LABEL = "C04-F1"      # label return types number backward ions with the fragment's own length
F_STATIC_TERM = "C04-F2"  # static N-Term/C-Term rule counted once per residue in fragment masses


def scenarios(tier: str) -> List[Dict[str, Any]]:
    out = []
    # EPE: both terminal residues occur again inside (residue-keyed caches/lookups that forget the terminus)
    seqs = ["P", "PE", "EPE", "SEK", "TIDE"] if tier == "quick" else ["P", "PE", "EPE", "SEK", "TIDE", "KSTRN", "MQDESK", "KSTKSK"]
    ion_sets = [[t] for t in ALL16] + [list(FWD + BWD), list(ALL16)]
    charge_sets = [[1], [2], [1, 2], [1, 3, 4]]
    iso_sets = [[0], 0, [0, 1], [2, 3]]
    loss_cfgs = [dict(), dict(water_loss=True), dict(ammonia_loss=True), dict(water_loss=True, ammonia_loss=True, max_losses=2),
                 dict(losses=[["[ST]", -79.97]], max_losses=1), dict(losses=[["[ST]", -79.97], ["K", -1.5]], water_loss=True, max_losses=3)]
    mod_cfgs = [
        {},
        {"nterm": [["num", "v0", 1]]},
        {"cterm": [["num", "v1", 2]]},
        {"internal": {"0": [["num", "v2", 1]]}},
        {"internal": {"L": [["num", "v3", 3]]}, "nterm": [["formula", "C2H3", 1]]},
        {"static": [[["FIRST"], [["num", "v4", 1]]]]},
        {"static": [[["N-Term"], [["num", "v5", 1]]]]},
        {"static": [[["C-Term"], [["num", "v6", 1]]]]},
        # the last residue's modification is registered before the first one's: an annotation object's modification dict is in
        # insertion order, not position order (reverse(), add_internal_mod in any order, constructor dicts)
        {"nterm": [["num", "v0", 1]], "cterm": [["num", "v1", 1]], "internal": {"L": [["unimod", "Acetyl", 1]], "0": [["num", "v2", 2]]},
         "static": [[["LAST"], [["formula", "H-2O", 1]]]]},
        {"labile": [["num", "v7", 1]], "internal": {"0": [["glycan", "Hex2", 1]]}},
    ]
    k = 0
    for seq in seqs:
        n = len(seq)
        for mi, mc in enumerate(mod_cfgs):
            for ii, ions in enumerate(ion_sets):
                # rotate the remaining parameters so every value meets every ion set at least once per tier
                reps = range(4) if tier == "quick" else range(8)
                for r in reps:
                    sc: Dict[str, Any] = {"seq": seq}
                    for key, val in mc.items():
                        if key == "internal":
                            sc["internal"] = {("0" if kk == "0" else str(n - 1)): v for kk, v in val.items()}
                        elif key == "static":
                            sc["static"] = [[[seq[0] if t == "FIRST" else seq[-1] if t == "LAST" else t for t in tg], sp] for tg, sp in val]
                        else:
                            sc[key] = val
                    sc["ions"] = ions
                    # mixed radix over k (no two parameters share a period): mono fastest, then charges, isotopes, losses
                    sc["mono"] = bool(k % 2 == 0)
                    sc["charges"] = charge_sets[(k // 2) % len(charge_sets)]
                    sc["isotopes"] = iso_sets[(k // 8 + mi) % len(iso_sets)]
                    sc["loss_cfg"] = loss_cfgs[(k // 3 + ii) % len(loss_cfgs)]
                    out.append(sc)
                    k += 1
    return out


def scenario_id(sc) -> str:
    mods = []
    for slot in ("labile", "nterm", "cterm"):
        if sc.get(slot):
            mods.append(slot)
    for kk in (sc.get("internal") or {}):
        mods.append(f"res{kk}")
    for t, _ in sc.get("static") or []:
        mods.append("static@" + ",".join(t))
    lc = sc["loss_cfg"]
    return "/".join([sc["seq"], "mono" if sc["mono"] else "avg", "ions=" + ",".join(sc["ions"]), "z=" + str(sc["charges"]).replace(" ", ""),
                     "iso=" + str(sc["isotopes"]).replace(" ", ""),
                     "loss=" + ("w" if lc.get("water_loss") else "") + ("a" if lc.get("ammonia_loss") else "") +
                     ("c%d" % len(lc["losses"]) if lc.get("losses") else "") + f"m{lc.get('max_losses', 1)}",
                     "mods=" + ("+".join(mods) or "-")])


def expected_losses(sub: str, lc: Dict[str, Any]) -> List[float]:
    rules = [tuple(x) for x in lc.get("losses", [])]
    if lc.get("water_loss"):
        rules.append(("[STED]", -18.01056))
    if lc.get("ammonia_loss"):
        rules.append(("[RKNQ]", -17.02655))
    app = []
    for rx, val in rules:
        app += [val] * len(_re.findall(rx, sub))
    res = {0.0} | set(app)
    for cnt in range(2, lc.get("max_losses", 1) + 1):
        for comb in itertools.combinations(app, cnt):
            res.add(sum(comb))
    return sorted(res)


def expected_keys(sc) -> List[Tuple[str, int, int, int, int, float]]:
    n = len(sc["seq"])
    charges = sc["charges"] if isinstance(sc["charges"], list) else [sc["charges"]]
    isos = sc["isotopes"] if isinstance(sc["isotopes"], list) else [sc["isotopes"]]
    keys = []
    for t in sc["ions"]:
        if t in FWD:
            spans = [(0, k) for k in range(1, n + 1)]
        elif t in BWD:
            spans = [(k, n) for k in range(0, n)]
        elif t in INTERNAL:
            spans = [(s, e) for s in range(1, n) for e in range(s + 1, n)]
        else:
            spans = [(i, i + 1) for i in range(n)]
        for (s, e) in spans:
            for loss in expected_losses(sc["seq"][s:e], sc["loss_cfg"]):
                for c in charges:
                    for iso in isos:
                        keys.append((t, s, e, c, iso, loss))
    return keys


def expected_label(t, s, e, n, c, iso, loss) -> str:
    if t in FWD:
        num = str(e)
    elif t in BWD:
        num = str(n - s)
    elif t in INTERNAL:
        num = f"{s}-{e}"
    else:
        num = str(s)
    return "+" * c + t + num + (f"({loss})" if loss != 0.0 else "") + ("*" * iso if iso > 0 else "")


def _frag_kwargs(sc):
    lc = sc["loss_cfg"]
    kw = dict(ion_types=list(sc["ions"]), charges=list(sc["charges"]) if isinstance(sc["charges"], list) else sc["charges"],
              monoisotopic=sc["mono"], isotopes=list(sc["isotopes"]) if isinstance(sc["isotopes"], list) else sc["isotopes"],
              water_loss=bool(lc.get("water_loss")), ammonia_loss=bool(lc.get("ammonia_loss")), max_losses=lc.get("max_losses", 1))
    if lc.get("losses"):
        kw["losses"] = [tuple(x) for x in lc["losses"]]
    return kw


def span_oracle(sc, V, env, t, s, e, c, iso, loss, excl=()):
    """independent sum of parts for one ion (the span's residues and the modifications that sit on them)"""
    from .. import massmodel as MM
    n = len(sc["seq"])
    mono = sc["mono"]
    sc2 = dict(sc)
    sc2.pop("labile", None)
    if F_STATIC_TERM in excl:
        # arithmetic of known finding C04-F2: a static N-Term/C-Term rule is added once per residue of the span
        base = MM.residue_and_mod_mass_oracle({**sc2, "static": [x for x in sc2.get("static") or [] if x[0][0] not in ("N-Term", "C-Term")]},
                                              V, env, mono, "b", s, e, with_nterm=(s == 0), with_cterm=(e == n))
        for tg, specs in sc2.get("static") or []:
            if tg[0] in ("N-Term", "C-Term"):
                for sp in specs:
                    base = base + MM.mod_mass_oracle((sp[0], sp[1], 1), V, env, mono) * (e - s)
    else:
        base = MM.residue_and_mod_mass_oracle(sc2, V, env, mono, "b", s, e, with_nterm=(s == 0), with_cterm=(e == n))
    return base + env.fa(t, mono) + env.fi(t, mono) + env.proton * (c - 1) + env.neutron * iso + loss


def check_scenario(sc: Dict[str, Any], sym_tables: bool, excl=()) -> Obligation:
    import z3
    from .. import symreal as SR
    from .. import massmodel as MM
    from ..e2lib import run_e2
    from peptacular.mass_calc import mass
    from peptacular.fragmentation import fragment, Fragmenter
    tol = TOL[sc["mono"]]
    n = len(sc["seq"])
    slots = MM.value_slots(sc)
    has_static_term = any(t[0][0] in ("N-Term", "C-Term") for t in sc.get("static") or [])
    ions = tuple(sc["ions"])   # 'n' (nothing added, by definition) keeps its real value 0

    def fn():
        env = MM.Env(sym=sym_tables)
        V = lambda name: SR.real(name)
        for s_ in slots:
            SR.assume(z3.And(SR.T(V(s_)) >= -10000, SR.T(V(s_)) <= 10000))
        props = []
        with MM.symbolic_tables([sc], env, ions=ions):
            for nm, v in list(env.symbols.items()):
                SR.assume(z3.And(SR.T(v) > 0, SR.T(v) < 1000))
            ann = MM.build(sc, V)
            # one set of argument objects for every call of the scenario: a later call with the caller's own lists (custom loss
            # rules, ion types, charges, isotopes) must see what the first call saw
            shared = _frag_kwargs(sc)
            frs = fragment(ann, return_type="fragment", **shared)
            # P1 exactly one ion per key
            got_keys = [(f.ion_type, f.start, f.end, f.charge, f.isotope, float(f.loss)) for f in frs]
            want_keys = expected_keys(sc)
            if sorted(got_keys) != sorted(want_keys):
                fn.why = f"ion set differs: missing {sorted(set(want_keys) - set(got_keys))[:3]} extra {sorted(set(got_keys) - set(want_keys))[:3]} dup {len(got_keys) - len(set(got_keys))}"
                return False
            for f in frs:
                # P2 agreement with the mass calculator on the ion's own sequence
                m_lib = mass(f.sequence, charge=f.charge, ion_type=f.ion_type, monoisotopic=sc["mono"], isotope=f.isotope, loss=f.loss)
                n_lib = mass(f.sequence, charge=0, ion_type=f.ion_type, monoisotopic=sc["mono"], isotope=f.isotope, loss=f.loss)
                if not (F_STATIC_TERM in excl and has_static_term):
                    props.append(SR.close(f.mass, m_lib, tol))
                    props.append(SR.close(f.neutral_mass, n_lib, tol))
                props.append(SR.close(f.mz, SR.T(f.mass) / f.charge, tol / f.charge))
                # P4 independent sum of parts
                if F_STATIC_TERM not in excl or True:
                    props.append(SR.close(f.mass, span_oracle(sc, V, env, f.ion_type, f.start, f.end, f.charge, f.isotope, f.loss, excl), tol))
                if f.internal != (f.start != 0 and f.end != n):
                    fn.why = "internal flag"
                    return False
                if f.unmod_sequence != sc["seq"][f.start:f.end]:
                    fn.why = "unmod_sequence"
                    return False
            # P5 projections
            masses = fragment(ann, return_type="mass", **shared)
            mzs = fragment(ann, return_type="mz", **shared)
            labels = fragment(ann, return_type="label", **shared)
            ml = fragment(ann, return_type="mass-label", **shared)
            zl = fragment(ann, return_type="mz-label", **shared)
            cached = Fragmenter(ann, sc["mono"]).fragment(return_type="fragment", **{k: v for k, v in shared.items() if k != "monoisotopic"})
            again = fragment(ann, return_type="fragment", **shared)
            if not (len(masses) == len(mzs) == len(labels) == len(ml) == len(zl) == len(cached) == len(frs) == len(again)):
                fn.why = "projection lengths differ (same argument objects, later calls): " + str([len(x) for x in (frs, masses, mzs, labels, ml, zl, cached, again)])
                return False
            if [(f.ion_type, f.start, f.end, f.charge, f.isotope, float(f.loss)) for f in again] != got_keys:
                fn.why = "a repeated call with the same argument objects returns other ions"
                return False
            for i, f in enumerate(frs):
                props.append(SR.T(masses[i]) == SR.T(f.mass))
                props.append(SR.T(mzs[i]) == SR.T(f.mz))
                props.append(SR.T(ml[i][0]) == SR.T(f.mass))
                props.append(SR.T(zl[i][0]) == SR.T(f.mz))
                g = cached[i]
                props.append(z3.And(SR.T(g.mass) == SR.T(f.mass), SR.T(g.mz) == SR.T(f.mz), SR.T(g.neutral_mass) == SR.T(f.neutral_mass)))
                if (g.ion_type, g.start, g.end, g.charge, g.isotope, g.loss, g.sequence) != (f.ion_type, f.start, f.end, f.charge, f.isotope, f.loss, f.sequence):
                    fn.why = "Fragmenter differs"
                    return False
                want_label = expected_label(f.ion_type, f.start, f.end, n, f.charge, f.isotope, float(f.loss))
                if f.label != want_label:
                    fn.why = f"Fragment.label {f.label!r} != {want_label!r}"
                    return False
                if F_LABEL not in excl:
                    if not (labels[i] == ml[i][1] == zl[i][1] == want_label):
                        fn.why = f"label return type {labels[i]!r} != {want_label!r}"
                        return False
        return z3.And(*props) if props else True

    fn.why = ""

    def replay(model):
        return native_replay(sc, model, excl)

    oid = "frag/" + ("sym" if sym_tables else "pinned") + "/" + scenario_id(sc) + ("/minus-" + "-".join(excl) if excl else "")
    ob = run_e2(oid, "one ion per (type, position, charge, isotope, loss); ion mass/mz = mass calculator on the ion's own sequence = "
                     "sum of parts of the span; return types and Fragmenter are projections",
                fn, functions=FUNCS, bounds="|mod values|<=1e4, table symbols in (0,1000)", replay=replay, budget_s=120)
    if ob.cex is not None:
        ob.cex["scenario"] = sc
        ob.cex["excl"] = list(excl)
        if fn.why:
            ob.cex["structural"] = fn.why
    return ob


_NATIVE = r'''
from vf import massmodel as MM
from vf.props import c04
def main(p):
    import peptacular as pt
    from peptacular.fragmentation import fragment, Fragmenter
    sc, model, excl = p["sc"], p["model"], tuple(p["excl"])
    env = MM.Env(sym=False)
    V = lambda name: float(model.get(name, 0.0))
    ann = MM.build(sc, V)
    text = ann.serialize()
    n = len(sc["seq"])
    tol = c04.TOL[sc["mono"]]
    class _KW(dict):
        pass
    kw = c04._frag_kwargs(sc)
    K = lambda: kw                       # the same argument objects for every call (a caller reusing its loss list must get the same ions)
    has_static_term = any(t[0][0] in ("N-Term", "C-Term") for t in sc.get("static") or [])
    problems = []
    sites = set()
    try:
        frs = fragment(ann, return_type="fragment", **K())
        got = sorted((f.ion_type, f.start, f.end, f.charge, f.isotope, float(f.loss)) for f in frs)
        want = sorted(c04.expected_keys(sc))
        if got != want:
            problems.append(f"ion set differs from expected: {len(got)} vs {len(want)}")
        labels = fragment(ann, return_type="label", **K())
        ml = fragment(ann, return_type="mass-label", **K())
        zl = fragment(ann, return_type="mz-label", **K())
        masses = fragment(ann, return_type="mass", **K())
        mzs = fragment(ann, return_type="mz", **K())
        cached = Fragmenter(ann, sc["mono"]).fragment(return_type="fragment", **{k: v for k, v in K().items() if k != "monoisotopic"})
        again = fragment(ann, return_type="fragment", **K())
        lens = [len(x) for x in (frs, masses, mzs, labels, ml, zl, cached, again)]
        if len(set(lens)) != 1 or sorted((f.ion_type, f.start, f.end, f.charge, f.isotope, float(f.loss)) for f in again) != got:
            problems.append(f"calls with the same argument objects return different ions: counts {lens} (fragment, mass, mz, label, mass-label, mz-label, Fragmenter, fragment again)")
            sites.add("other")
            frs = []
        for i, f in enumerate(frs):
            m_lib = pt.mass(f.sequence, charge=f.charge, ion_type=f.ion_type, monoisotopic=sc["mono"], isotope=f.isotope, loss=f.loss)
            if abs(f.mass - m_lib) > tol and not (c04.F_STATIC_TERM in excl and has_static_term):
                problems.append(f"{f.label} [{f.sequence}] fragment mass {f.mass!r} != mass() {m_lib!r}")
                w2 = c04.span_oracle(sc, V, env, f.ion_type, f.start, f.end, f.charge, f.isotope, f.loss, (c04.F_STATIC_TERM,))
                sites.add(c04.F_STATIC_TERM if abs(f.mass - w2) <= tol and any(t[0][0] in ("N-Term", "C-Term") for t in sc.get("static") or []) else "other")
            w = c04.span_oracle(sc, V, env, f.ion_type, f.start, f.end, f.charge, f.isotope, f.loss, excl)
            if abs(f.mass - w) > tol:
                problems.append(f"{f.label} [{f.sequence}] fragment mass {f.mass!r} != sum of parts {w!r}")
                w2 = c04.span_oracle(sc, V, env, f.ion_type, f.start, f.end, f.charge, f.isotope, f.loss, (c04.F_STATIC_TERM,))
                sites.add(c04.F_STATIC_TERM if abs(f.mass - w2) <= tol and any(t[0][0] in ("N-Term", "C-Term") for t in sc.get("static") or []) else "other")
            if abs(f.mz - f.mass / f.charge) > tol:
                problems.append(f"{f.label} mz"); sites.add("other")
            if masses[i] != f.mass or mzs[i] != f.mz or ml[i][0] != f.mass or zl[i][0] != f.mz:
                problems.append(f"{f.label} numeric projection differs"); sites.add("other")
            g = cached[i]
            if (g.mass, g.mz, g.label, g.sequence) != (f.mass, f.mz, f.label, f.sequence):
                problems.append(f"{f.label} Fragmenter differs"); sites.add("other")
            wl = c04.expected_label(f.ion_type, f.start, f.end, n, f.charge, f.isotope, float(f.loss))
            if f.label != wl:
                problems.append(f"Fragment.label {f.label!r} != {wl!r}"); sites.add("other")
            if c04.F_LABEL not in excl and not (labels[i] == ml[i][1] == zl[i][1] == wl):
                problems.append(f"label return type gives {labels[i]!r}, Fragment.label is {wl!r}")
                sites.add(c04.F_LABEL if f.ion_type in c04.BWD and labels[i] == c04.expected_label(f.ion_type, f.start, f.end, f.end - f.start, f.charge, f.isotope, float(f.loss)) else "other")
    except Exception as e:
        problems.append(f"{type(e).__name__}: {e}"); sites.add("other")
    site = None
    if problems and len(sites) == 1 and "other" not in sites:
        site = list(sites)[0]
    return {"violated": bool(problems), "detail": f"fragment({text!r}, {kw}): " + "; ".join(problems[:3]), "site": site, "sites": sorted(sites)}
'''


def native_replay(sc, model, excl=()):
    from ..e2lib import native_call
    res = native_call(_NATIVE, {"sc": sc, "model": model, "excl": list(excl)})
    return res["violated"], res["detail"], res.get("site")


def _decide(sc, excl=()):
    ob = check_scenario(sc, True, excl)
    if ob.status == CEX and ob.replayed is False:
        ob2 = check_scenario(sc, False, excl)
        ob2.detail = "[sym-table counterexample did not reproduce with real tables; re-decided pinned] " + ob2.detail
        ob2.paths += ob.paths
        ob2.queries += ob.queries
        ob2.solver_s += ob.solver_s
        return ob2
    return ob


def _work(args):
    sc, known = args
    out = []
    excl: Tuple[str, ...] = ()
    for _ in range(4):
        ob = _decide(sc, excl)
        out.append(ob)
        if ob.status == CEX and ob.replayed and ob.finding in known and ob.finding not in excl:
            excl = excl + (ob.finding,)
            continue
        break
    return out


def run(tier: str, seed: int, only=None) -> Report:
    scs = scenarios(tier)
    if only:
        scs = [s for s in scs if only in scenario_id(s)]
    known = tuple(f["id"] for f in load_known_findings(PID))
    rep = Report(
        property_id=PID, tier=tier, seed=seed,
        explanation="fragment()/Fragmenter run natively on symbolic residue masses, fragment offsets (neutral and ion adjustments per ion "
                    "type), proton, neutron and modification values (E2). Per annotation shape and parameter set the returned ion list is "
                    "compared with the expected index set (exactly one ion per type/position/charge/isotope/loss), every ion's mass, "
                    "neutral mass and m/z with the mass calculator run on the ion's own serialized sequence (token round trip S7) and "
                    "with an independent sum of parts; the five other return types and the cached Fragmenter must be projections.",
        functions=FUNCS,
        bounds="peptides " + ("P, PE, EPE, SEK, TIDE" if tier == "quick" else "P, PE, EPE, SEK, TIDE, KSTRN, MQDESK, KSTKSK") + "; each single ion type, the six "
               "terminal types together, all 16 together; charge lists within [1,4]; isotope lists within [0,3]; water/ammonia/custom "
               "regex losses with max_losses 1..3; terminal, residue, static (residue, N-Term, C-Term) and labile modifications; mono/avg",
        outside="precision != None (S6 only in C02); peptides longer than 6; isotope-label global modifications (C12); loss values are concrete "
                "(they are hashed into a set by get_losses)",
        assumptions=["S4 tables rebound to symbols", "S5 floats are reals", "S7 token round trip through Fragment.sequence",
                     "loss-rule regexes run concretely on the concrete residue string"],
    )
    with ProcessPoolExecutor(max_workers=NCPU, mp_context=mp.get_context("spawn")) as ex:
        res = list(ex.map(_work, [(s, known) for s in scs], chunksize=4))
    rep.obligations = [o for lst in res for o in lst]
    return rep


def replay(rec: dict) -> int:
    inp = rec["inputs"]
    violated, detail, site = native_replay(inp["scenario"], inp["model"], tuple(inp.get("excl", ())))
    print("replay:", detail)
    if violated:
        print(f"VIOLATION property={PID} replay=(reproduced)")
        return 1
    return 0
