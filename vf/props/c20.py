"""C20 modification dictionaries, copies, equality — E1 (CrossHair)."""
from __future__ import annotations

from typing import List

from ..ch import Cond, run_conds
from ..common import Report, load_known_findings

PID = "C20"
FUNCS = ["sequence_funcs.get_mods", "sequence_funcs.add_mods", "sequence_funcs.strip_mods", "ProFormaAnnotation.mod_dict", "ProFormaAnnotation.add_mod_dict",
         "ProFormaAnnotation.dict", "proforma_parser.create_annotation", "ProFormaAnnotation.copy", "ProFormaAnnotation.strip",
         "ProFormaAnnotation.__eq__", "proforma_dataclasses.are_mods_equal", "proforma_dataclasses.are_intervals_equal", "Mod.__eq__/__hash__",
         "Interval.__eq__/__hash__", "input_convert.fix_*"]


def build(tier: str) -> List[Cond]:
    from ..h import c20 as H
    conds: List[Cond] = []
    t = 90 if tier == "quick" else 600
    seqs = ["T", "TI", "PEP"] if tier == "quick" else ["T", "TI", "PEP", "TIDE"]
    for seq in seqs:
        L = len(seq)
        for npos in (0, 1, 2):
            if npos > L:
                continue
            for glob in (False, True):
                for nint in (0, 1):
                    sym = [("amb", "bool")] + [(f"p{i}", "int") for i in range(npos)] + ([("a0", "int"), ("b0", "int")] if nint else [])
                    pre = [f"0 <= p{i} < {L}" for i in range(npos)] + ([f"0 <= a0 < b0 <= {L}"] if nint else [])
                    shape = dict(seq=seq, npos=npos, glob=glob, nint=nint)
                    tag = f"{seq}/mods={npos}/glob={int(glob)}/intervals={nint}"
                    splits = [None] if not (npos == 2 and L >= 3) else list(range(L))       # case split on p0 keeps conditions small
                    for sp in splits:
                        spre = pre + ([f"p0 == {sp}"] if sp is not None else [])
                        stag = tag + (f"/p0={sp}" if sp is not None else "")
                        conds.append(Cond(oid=f"moddict/{stag}", clause="add_mods(strip_mods(s), get_mods(s)) == s; create_annotation(**a.dict()) equals a; strip removes everything and nothing else",
                                          module="vf.h.c20", func="o_mod_dict_roundtrip", shape=shape, sym=sym, pre=spre, timeout=t, functions=FUNCS,
                                          bounds=f"len {L}; modification positions, interval bounds, ambiguity symbolic"))
                        conds.append(Cond(oid=f"copy/{stag}", clause="copy() equals its source and is independent of it under every setter/adder/in-place edit",
                                          module="vf.h.c20", func="o_copy_independent", shape=shape, sym=sym + [("which", "int")],
                                          pre=spre + [f"0 <= which < {len(H._MUTATORS)}"], timeout=t, functions=FUNCS,
                                          bounds=f"len {L}; {len(H._MUTATORS)} mutators (symbolic selector)"))
        for npos in (0, 1, 2):
            if npos > L or (L >= 3 and npos == 2 and tier == "quick"):
                continue
            for glob in (False, True):
                for nint in ((0, 1) if L <= 2 or tier == "thorough" else (0,)):
                    sym = [("amb", "bool")] + [(f"p{i}", "int") for i in range(npos)] + ([("a0", "int"), ("b0", "int")] if nint else [])
                    pre = [f"0 <= p{i} < {L}" for i in range(npos)] + ([f"0 <= a0 < b0 <= {L}"] if nint else [])
                    conds.append(Cond(oid=f"moddict-forms/{seq}/mods={npos}/glob={int(glob)}/intervals={nint}",
                                      clause="the same round trip through pop_mods and with the peptide given as a ProForma string",
                                      module="vf.h.c20", func="o_mod_dict_roundtrip", shape=dict(seq=seq, npos=npos, glob=glob, nint=nint, forms=True),
                                      sym=sym, pre=pre, timeout=t, functions=FUNCS, bounds=f"len {L}; modification positions, interval bounds, ambiguity symbolic"))
        for glob in (False, True):
            for nint in (0, 1):
                conds.append(Cond(oid=f"equality/{seq}/glob={int(glob)}/intervals={nint}", clause="== reflexive, symmetric, order-insensitive per position, sensitive to every other single-field difference",
                                  module="vf.h.c20", func="o_equality", shape=dict(seq=seq, glob=glob, nint=nint), sym=[("pert", "int")],
                                  pre=[f"0 <= pert < {len(H._PERT)}"], timeout=t, functions=FUNCS,
                                  bounds=f"len {L}; {len(H._PERT)} single-field perturbations (symbolic selector, realised)"))
    return conds


def run(tier: str, seed: int, only=None) -> Report:
    from ..ch import tier_conds
    conds = tier_conds(build, tier, cap=200)
    if only:
        conds = [c for c in conds if only in c.oid]
    rep = Report(
        property_id=PID, tier=tier, seed=seed,
        explanation="The mod-dictionary round trip, create_annotation(**dict()), strip and copy-independence clauses run under CrossHair with "
                    "symbolic modification positions, interval bounds, ambiguity flag and a symbolic selector over 14 ways to mutate the copy. "
                    "The equality clauses evaluate the library's own ==/!= (Counter and Mod.__hash__ inside, which CrossHair cannot trace) "
                    "untraced on realised arguments, with the single-field perturbation chosen by a symbolic selector over 18 kinds.",
        functions=FUNCS, bounds="residue strings of length <=3 (quick) / <=4 (thorough); <=2 residue modifications (two at one position for equality), one interval, all global kinds on/off",
        outside="hash consistency beyond what == implies; annotations with several intervals; longer peptides",
        assumptions=["S1", "equality clauses: solver-driven enumeration of the perturbation selector (library == runs untraced on concrete values)"],
    )
    rep.obligations = run_conds(conds, PID, known=load_known_findings(PID))
    return rep


def replay(rec: dict) -> int:
    from ..ch import replay_native
    inp = rec["inputs"]
    mod, func = inp["call"].rsplit(".", 1)
    r = replay_native(mod, func, {}, {"kwargs": inp["kwargs"]}, [])
    print("replay:", r.get("ok"), r.get("exc") or r.get("last"))
    if r.get("ok") is False:
        print(f"VIOLATION property={PID} replay=(reproduced)")
        return 1
    return 0
