"""C15 formula write/parse round trip and additivity — E1 (selector-built compositions) + E2 (mass linearity)."""
from __future__ import annotations

import multiprocessing as mp
from concurrent.futures import ProcessPoolExecutor
from typing import List

from ..ch import Cond, run_conds
from ..common import CEX, DISCHARGED, INCONCLUSIVE, NCPU, Obligation, Report, load_known_findings

PID = "C15"
FUNCS = ["chem_util.write_chem_formula", "chem_util.parse_chem_formula", "chem_util._split_chem_formula", "chem_util._parse_condensed_chem_formula",
         "chem_util._parse_isotope_component", "chem_util._parse_split_chem_formula", "chem_util.chem_mass", "glycan.write_glycan_formula",
         "glycan.parse_glycan_formula", "glycan.glycan_comp", "mass_calc.glycan_mass", "mod_db_setup._parse_glycan_formula/_glycan_comp"]


def e1_conds(tier: str) -> List[Cond]:
    from ..h import c15 as H
    conds: List[Cond] = []
    t = 120 if tier == "quick" else 900
    P = len(H.PALETTE)
    cr = (-2, 3) if tier == "quick" else (-3, 6)
    # one condition per first element (and, for two elements, per slice of the palette for the second): the counts, separator,
    # order and the second selector stay symbolic; formatting realises them, so each condition is a solver-driven enumeration
    q = tier == "quick"
    for e0 in range(P):
        conds.append(Cond(oid=f"chem-roundtrip/first={H.PALETTE[e0]}/n=1", clause="write_chem_formula -> parse_chem_formula = the composition with zero counts dropped (plain/Hill order, all separators)",
                          module="vf.h.c15", func="o_chem_roundtrip", shape=dict(n=1, e0=e0), sym=[("sepi", "int"), ("hill", "bool"), ("dec", "bool"), ("c0", "int")],
                          pre=["0 <= sepi <= 2", f"{cr[0]} <= c0 <= {cr[1]}"], timeout=t, functions=FUNCS[:6],
                          bounds=f"one palette element, counts {cr[0]}..{cr[1]} or 6 decimals, separators '', ' ', '|', hill order"))
        slices = [((e0 * 7) % P, 7)] if q else [(k, 7) for k in range(0, P, 7)]
        for (lo, ln) in slices:
            hi = min(lo + ln, P)
            conds.append(Cond(oid=f"chem-roundtrip/first={H.PALETTE[e0]}/n=2/second={lo}-{hi - 1}", clause="write_chem_formula -> parse_chem_formula = the composition with zero counts dropped (plain/Hill order, all separators)",
                              module="vf.h.c15", func="o_chem_roundtrip", shape=dict(n=2, e0=e0, dec=False),
                              sym=[("sepi", "int"), ("hill", "bool"), ("c0", "int"), ("e1", "int"), ("c1", "int")],
                              pre=["0 <= sepi <= 2", "c0 in (-2, 0, 1)" if q else "c0 in (-3, 0, 1, 6)", f"{lo} <= e1 < {hi}", "c1 in (-1, 2)" if q else "c1 in (-1, 0, 11)"],
                              timeout=t, functions=FUNCS[:6], bounds=f"first element fixed, second from palette[{lo}:{hi}], integer counts, all separators and orders"))
        if not q or e0 % 2 == 0:
            lo = (e0 * 5) % P
            lo2 = (e0 * 11 + 3) % P
            conds.append(Cond(oid=f"chem-additive/first={H.PALETTE[e0]}", clause="parse(f+g) = parse(f)+parse(g): repeated elements accumulate, isotopes stay distinct",
                              module="vf.h.c15", func="o_chem_additive", shape=dict(n=2, e0=e0, c0=1, c1=2), sym=[("e1", "int"), ("f0", "int"), ("d0", "int")],
                              pre=[f"{lo} <= e1 < {min(lo + 7, P)}", f"{lo2} <= f0 < {min(lo2 + 7, P)} or f0 == {e0}", "d0 in (-1, 2)"], timeout=t, functions=FUNCS[:6],
                              bounds="f with two palette elements, g with one (incl. the same element as f's first); counts small"))
    conds.append(Cond(oid="split/len<=3", clause="_split_chem_formula terminates, rejects exactly the unbalanced texts, pieces reproduce the formula, brackets kept whole", module="vf.h.c15", func="o_split", shape={},
                      sym=[("s", "str")], pre=["len(s) <= %d" % (3 if q else 4), "all(c in 'C[]1H-' for c in s)"], timeout=t, functions=FUNCS[2:3],
                      bounds="every string of length <=3/4 over {C,H,[,],1,-}"))
    S = len(H.SACCH)
    for g0 in range(S):
        halves = [((g0 * 13) % S, 9)] if q else [(0, 9), (9, 9), (18, 9)]
        for (lo, ln) in halves:
            hi = min(lo + ln, S)
            conds.append(Cond(oid=f"glycan-roundtrip/first={H.SACCH[g0]}/second={lo}-{hi - 1}", clause="write_glycan_formula -> parse_glycan_formula returns the counts it was written from (unambiguous forms)",
                              module="vf.h.c15", func="o_glycan_roundtrip", shape=dict(n=2, g0=g0, c0=(2, 0, -1, 7)[g0 % 4]), sym=[("sepi", "int"), ("g1", "int"), ("c1", "int")],
                              pre=["0 <= sepi <= 2", f"{lo} <= g1 < {hi}", "c1 in (-2, 0, 1, 3, 12)", f"g1 != {g0}"], timeout=t, functions=FUNCS[7:],
                              bounds=f"first monosaccharide fixed (count 2, 0, -1 or 7 by its index), second from the table[{lo}:{hi}] with count in {{-2,0,1,3,12}}, three separators"))
    return conds


def _e2_job(mono: bool) -> Obligation:
    import z3
    from .. import symreal as SR
    from ..e2lib import run_e2, patched
    import peptacular.constants as K
    from peptacular.chem.chem_util import chem_mass, write_chem_formula
    from peptacular.mass_calc import glycan_mass
    from peptacular.glycan import glycan_comp, write_glycan_formula
    from peptacular.mods.mod_db_setup import MONOSACCHARIDES_DB
    els = ["C", "H", "N", "O", "S", "P", "Na", "13C", "D", "Ce", "Co"]
    comps = [{"C": 2, "H": 5, "O": 1}, {"C": 1, "Ce": 2, "Co": 1, "O": 3}, {"13C": 2, "C": 1, "D": 3, "H": -1}, {"e": -1, "p": 2, "n": 1, "N": 1},
             {"S": 1.5, "P": -0.25, "Na": 2}, {"H": 2, "O": 1, "e": 0}]
    glycans = [{"Hex": 2, "HexNAc": 1}, {"Fuc": 1, "Neu5Ac": 3}, {"Hex": 0.5, "Pen": 2}]
    # every monosaccharide that has synonyms: the string / dict spelled with a synonym weighs and is composed like the one spelled
    # with the name
    with_syn = [(n, list(MONOSACCHARIDES_DB.get_entry_by_name(n).synonyms)) for n in MONOSACCHARIDES_DB.name_map
                if MONOSACCHARIDES_DB.get_entry_by_name(n).synonyms]
    gl_names = sorted({"Hex", "HexNAc", "Fuc", "Neu5Ac", "Pen"} | {n for n, _ in with_syn})

    def fn():
        m = {e: SR.real(f"el_m_{e}") for e in els}
        a = {e: SR.real(f"el_a_{e}") for e in els if not e[0].isdigit() and e != "D"}
        scal = {"ELECTRON_MASS": SR.real("electron"), "PROTON_MASS": SR.real("proton"), "NEUTRON_MASS": SR.real("neutron")}
        sg = {n: (SR.real(f"gl_m_{k}"), SR.real(f"gl_a_{k}")) for k, n in enumerate(gl_names)}
        attrs = []
        for n, (mm, aa) in sg.items():
            e = MONOSACCHARIDES_DB.get_entry_by_name(n)
            attrs += [(e, "mono_mass", mm), (e, "avg_mass", aa)]
        props = []
        with patched([(K.ISOTOPIC_ATOMIC_MASSES, m), (K.AVERAGE_ATOMIC_MASSES, a)], scal, attrs):
            def el(e):
                if e == "e":
                    return scal["ELECTRON_MASS"]
                if e == "p":
                    return scal["PROTON_MASS"]
                if e == "n":
                    return scal["NEUTRON_MASS"]
                return m[e] if (mono or e[0].isdigit() or e == "D") else a[e]
            for comp in comps:
                want = 0
                for e, c in comp.items():
                    want = want + el(e) * c
                for sep in ("", " ", "|"):
                    for hill in (False, True):
                        text = write_chem_formula(comp, sep=sep, hill_order=hill)
                        if sep != "" and not any(v != 0 for v in comp.values()):
                            continue
                        props.append(SR.T(chem_mass(text, monoisotopic=mono, sep=sep)) == SR.T(want))
                props.append(SR.T(chem_mass(dict(comp), monoisotopic=mono)) == SR.T(want))
            for g in glycans:
                want = 0
                for n, c in g.items():
                    want = want + (sg[n][0] if mono else sg[n][1]) * c
                props.append(SR.T(glycan_mass(dict(g), monoisotopic=mono)) == SR.T(want))
                props.append(SR.T(glycan_mass(write_glycan_formula(g), monoisotopic=mono)) == SR.T(want))
            for n, syns in with_syn:
                for sname in syns:
                    for cnt in (1, 3):
                        want = (sg[n][0] if mono else sg[n][1]) * cnt
                        try:
                            got = [glycan_mass(f"{sname}{cnt}", monoisotopic=mono), glycan_mass({sname: cnt}, monoisotopic=mono),
                                   glycan_mass(f"Hex2{sname}{cnt}", monoisotopic=mono) - (sg["Hex"][0] if mono else sg["Hex"][1]) * 2]
                            same_comp = glycan_comp(f"{sname}{cnt}") == glycan_comp(f"{n}{cnt}") == glycan_comp({sname: cnt})
                        except ValueError as err:
                            fn.why = f"synonym {sname!r} of {n!r}: {type(err).__name__}: {err}"
                            return False
                        if not same_comp:
                            fn.why = f"composition through synonym {sname!r} differs from the one through {n!r}"
                            return False
                        for gm in got:
                            props.append(SR.T(gm) == SR.T(want))
        return z3.And(*props)

    fn.why = ""

    def replay(model):
        from ..e2lib import native_call
        code = r"""
def main(p):
    import peptacular.constants as K
    from peptacular.chem.chem_util import chem_mass, write_chem_formula
    from peptacular.mass_calc import glycan_mass
    from peptacular.glycan import glycan_comp, write_glycan_formula
    from peptacular.mods.mod_db_setup import MONOSACCHARIDES_DB as DB
    mono = p["mono"]; bad = []
    def el(e):
        if e in "epn": return {"e": K.ELECTRON_MASS, "p": K.PROTON_MASS, "n": K.NEUTRON_MASS}[e]
        return K.ISOTOPIC_ATOMIC_MASSES[e] if (mono or e[0].isdigit() or e == "D") else K.AVERAGE_ATOMIC_MASSES[e]
    ms = lambda n: DB.get_entry_by_name(n).mono_mass if mono else DB.get_entry_by_name(n).avg_mass
    for comp in p["comps"]:
        want = sum(el(e) * c for e, c in comp.items())
        for sep in ("", " ", "|"):
            for hill in (False, True):
                if sep != "" and not any(v != 0 for v in comp.values()): continue
                text = write_chem_formula(comp, sep=sep, hill_order=hill)
                if abs(chem_mass(text, monoisotopic=mono, sep=sep) - want) > 1e-6: bad.append(f"chem_mass({text!r}) != mass of {comp}")
    for g in p["glycans"]:
        want = sum(ms(n) * c for n, c in g.items())
        if abs(glycan_mass(dict(g), monoisotopic=mono) - want) > 1e-6 or abs(glycan_mass(write_glycan_formula(g), monoisotopic=mono) - want) > 1e-6:
            bad.append(f"glycan_mass of {g}")
    for n, syns in p["with_syn"]:
        for sname in syns:
            for cnt in (1, 3):
                try:
                    got = [glycan_mass(f"{sname}{cnt}", monoisotopic=mono), glycan_mass({sname: cnt}, monoisotopic=mono), glycan_mass(f"Hex2{sname}{cnt}", monoisotopic=mono) - 2 * ms("Hex")]
                    if any(abs(x - ms(n) * cnt) > 1e-6 for x in got): bad.append(f"mass through synonym {sname!r} x{cnt}: {got} vs {ms(n) * cnt}")
                    if not (glycan_comp(f"{sname}{cnt}") == glycan_comp(f"{n}{cnt}") == glycan_comp({sname: cnt})): bad.append(f"composition through synonym {sname!r}")
                except ValueError as err:
                    bad.append(f"synonym {sname!r} of {n!r}: {type(err).__name__}: {err}")
    return {"violated": bool(bad), "detail": "; ".join(bad[:4])}
"""
        res = native_call(code, {"mono": mono, "comps": comps, "glycans": glycans, "with_syn": with_syn})
        return res["violated"], res["detail"], None

    return run_e2(f"E2/mass-linearity/{'mono' if mono else 'avg'}", "mass of the written string = mass of the composition = count-weighted sum (chemical and glycan formulas)",
                  fn, functions=FUNCS[6:], bounds="6 compositions incl. isotopes, particles, decimal and negative counts; 3 glycan compositions; every synonym of every monosaccharide (string, dict, inside a longer formula); all separators/orders; element and monosaccharide masses symbolic",
                  replay=replay, budget_s=60)


def run(tier: str, seed: int, only=None) -> Report:
    from ..ch import tier_conds
    conds = tier_conds(e1_conds, tier, cap=300)
    if only:
        conds = [c for c in conds if only in c.oid]
    rep = Report(
        property_id=PID, tier=tier, seed=seed,
        explanation="E1: compositions are built from symbolic selectors into a 28-symbol palette taken from the real element table to stress the "
                    "tokenizer (C/Ce/Co, H/He/Hf, particles e/p/n, D/T, 13C/2H/15N/18O ...) with symbolic counts (realised at formatting: "
                    "solver-driven enumeration), separator, order and decimal flag; write->parse must return the composition without zero "
                    "counts; concatenation must be additive; the pure-Python bracket splitter is decided on all short strings; glycan "
                    "formulas round-trip when unambiguous. E2: with element and monosaccharide masses symbolic, the mass of every written "
                    "form equals the count-weighted sum.",
        functions=FUNCS, bounds="1-2 (quick) / 1-3 (thorough) elements per composition, counts -2..3 / -3..6 and 6 decimals; 27 monosaccharides pairwise",
        outside="the whole language of formulas (the tokenising regexes run in the C extension on realised strings); counts to +-500; 4-place decimals beyond the six listed",
        assumptions=["compiled regex patterns run untraced on realised strings (S3r)", "S4/S5 for the E2 clause"],
    )
    obs = run_conds(conds, PID, known=load_known_findings(PID))
    if not only or "E2" in only:
        obs += [_e2_job(True), _e2_job(False)]
    rep.obligations = obs
    return rep


def replay(rec: dict) -> int:
    from ..ch import replay_native
    inp = rec["inputs"]
    if "call" not in inp:
        print("record:", rec.get("detail"))
        return 1
    mod, func = inp["call"].rsplit(".", 1)
    r = replay_native(mod, func, {}, {"kwargs": inp["kwargs"]}, [])
    print("replay:", r.get("ok"), r.get("exc") or r.get("last"))
    if r.get("ok") is False:
        print(f"VIOLATION property={PID} replay=(reproduced)")
        return 1
    return 0
