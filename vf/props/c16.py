"""C16 subsequence search and coverage — E1 (CrossHair); target/query strings symbolic over a two-letter alphabet."""
from __future__ import annotations

from typing import List

from ..ch import Cond, run_conds
from ..common import Report, load_known_findings

PID = "C16"
FUNCS = ["sequence_funcs.find_subsequence_indices", "ProFormaAnnotation.find_indices", "ProFormaAnnotation.is_subsequence",
         "sequence_funcs.is_subsequence", "sequence_funcs.coverage", "sequence_funcs.percent_coverage", "sequence_funcs.count_residues",
         "ProFormaAnnotation.slice", "ProFormaAnnotation.__eq__"]
AB = "AK"


def _str_pre(name, n, exact=True):
    return [f"len({name}) {'==' if exact else '<='} {n}", f"all(c in {AB!r} for c in {name})"]


def build(tier: str) -> List[Cond]:
    conds: List[Cond] = []
    t = 120 if tier == "quick" else 900
    tmax, qmax = (4, 3) if tier == "quick" else (6, 4)
    for tl in range(1, tmax + 1):
        for ql in range(1, min(qmax, tl) + 1):
            # modification positions are part of the shape: the library compares modifications through its own __eq__/Counter/hash,
            # which CrossHair cannot follow on symbolic keys (probe 2 in DESIGN.md)
            placements = [((), ())]
            placements += [((p,), ()) for p in range(tl)]
            placements += [((p,), (q,)) for p in range(tl) for q in sorted({0, ql - 1})]
            if tier == "thorough":
                placements += [((p, p2), (0,)) for p in range(tl) for p2 in range(p, tl)]
            if tier == "quick" and tl == 4:
                placements = [pl for i, pl in enumerate(placements) if i % 2 == 0]
            # the same modification twice on one target residue against a query carrying it once (multisets, not sets)
            dups = [((p, p), (0,), True) for p in range(tl)] if (tl <= 3 or tier == "thorough") else []
            for pl in [pl_ + (False,) for pl_ in placements] + dups:
                tps, qps, same = pl
                shape = dict(ntp=len(tps), nqp=len(qps), **{f"tp{i}": v for i, v in enumerate(tps)}, **{f"qp{i}": v for i, v in enumerate(qps)})
                if same:
                    shape["same"] = True
                tag = f"t={tl}/q={ql}/tmods={','.join(map(str, tps)) or '-'}/qmods={','.join(map(str, qps)) or '-'}" + ("/same-value" if same else "")
                conds.append(Cond(oid=f"find/{tag}", clause="find_subsequence_indices: all offsets incl. overlapping; with ignore_mods = plain substring search",
                                  module="vf.h.c16", func="o_find", shape=shape, sym=[("tseq", "str"), ("qseq", "str"), ("ignore_mods", "bool")],
                                  pre=_str_pre("tseq", tl) + _str_pre("qseq", ql), timeout=t, functions=FUNCS,
                                  bounds=f"target length {tl}, query length {ql} over {{A,K}} symbolic (regex is a realisation point: solver-driven enumeration); modification positions fixed"))
                if not same and len(tps) <= 1 and len(qps) <= 1 and (not qps or qps[0] == 0):
                    conds.append(Cond(oid=f"unordered/{tag}", clause="order-insensitive containment = multiset inclusion of modified residues",
                                      module="vf.h.c16", func="o_unordered", shape=shape, sym=[("tseq", "str"), ("qseq", "str")],
                                      pre=_str_pre("tseq", tl) + _str_pre("qseq", ql), timeout=t, functions=FUNCS, bounds=f"target {tl}, query {ql}"))
            if ql <= 2:
                for tps in [()] + [(p,) for p in range(tl)]:
                    if tier == "quick" and tl == 4 and tps and tps[0] % 2:
                        continue
                    for qform in ("plain", "modstr", "modann"):
                        if qform != "plain" and tier == "quick" and (tl > 3 or (tl == 3 and ql == 2) or (qform == "modann" and tps and tps[0] != 0)):
                            continue
                        shape = dict(ntp=len(tps), qform=qform, **{f"tp{i}": v for i, v in enumerate(tps)})
                        conds.append(Cond(oid=f"coverage/t={tl}/q={ql}/tmods={','.join(map(str, tps)) or '-'}" + ("" if qform == "plain" else "/" + qform), clause="coverage marks/counts exactly the covered positions; percent coverage is the marked fraction",
                                          module="vf.h.c16", func="o_coverage", shape=shape,
                                          sym=[("tseq", "str"), ("q1", "str"), ("q2", "str"), ("accumulate", "bool"), ("ignore_mods", "bool")],
                                          pre=_str_pre("tseq", tl) + _str_pre("q1", ql) + _str_pre("q2", (2 if tier == "thorough" else 1) if tl <= 3 else 0, exact=False), timeout=t, functions=FUNCS,
                                          bounds=f"target {tl}, first query {ql} ({qform}: plain residues / ProForma string with a modification / annotation object), second query <=1/2 (may be empty = absent)"))
    return conds


def run(tier: str, seed: int, only=None) -> Report:
    from ..ch import tier_conds
    conds = tier_conds(build, tier, cap=250)
    if only:
        conds = [c for c in conds if only in c.oid]
    rep = Report(
        property_id=PID, tier=tier, seed=seed,
        explanation="Target and query residue strings over a two-letter alphabet (to force overlaps), modification positions and the flags are "
                    "CrossHair symbols; the offsets, coverage arrays, percent coverage and unordered containment returned by the library are "
                    "compared with the definitional oracle (all k with equal residues and equal modifications on the stretch). The substring "
                    "search runs in the regex C extension, so the strings are realised: the solver drives an exhaustive enumeration of the "
                    "declared finite domain while positions and flags stay symbolic.",
        functions=FUNCS, bounds="target <=4 / query <=3 (quick), <=6 / <=4 (thorough) over {A,K}; <=2 target and <=1 query modifications",
        outside="targets beyond the bound; terminal/global modifications of the query; random long modified targets",
        assumptions=["regex is a realisation point (enumeration of the declared string domain)"],
    )
    rep.obligations = run_conds(conds, PID, known=load_known_findings(PID))
    return rep


def replay(rec: dict) -> int:
    from ..ch import replay_native
    inp = rec["inputs"]
    mod, func = inp["call"].rsplit(".", 1)
    r = replay_native(mod, func, {}, {"kwargs": inp["kwargs"]}, [])
    print("replay:", r.get("ok"), r.get("exc") or r.get("last"))
    if r.get("ok") is False:
        print(f"VIOLATION property={PID} replay=(reproduced)")
        return 1
    return 0
