"""C13 static and variable modification builders — E1 (CrossHair): max_mods unbounded, pre-modification flags, mode, return type symbolic."""
from __future__ import annotations

from typing import List

from ..ch import Cond, run_conds
from ..common import Report, load_known_findings

PID = "C13"
FUNCS = ["mod_builder.apply_static_mods", "mod_builder.apply_variable_mods", "mod_builder._variable_mods_builder", "mod_builder._apply_variable_mods_rec",
         "util.get_regex_match_indices", "input_convert.fix_list_of_mods/fix_list_of_list_of_mods", "ProFormaAnnotation.add_internal_mod/add_nterm_mods/add_cterm_mods"]

SEQS_Q = ["K", "KE", "PKK"]
SEQS_T = ["K", "KE", "PKK", "KSTK", "MKEKS", "KKRKK"]
STATIC_RULESETS = [
    [("K", ["Ac"])],
    [("[ST]", ["Ph", "x"]), ("K", ["Ac"])],
    [("K", ["Ac"]), ("E", ["Me"]), ("P(?=K)", ["Ox"])],
    [("(?<=K)", ["Zw"])],
    [("K", ["Ac"]), ("[KR]", ["Me"])],
]
TERM_RULES = [None, ("", ["Nt"]), ("K", ["Nk"]), ("[PS]", ["Np"])]
VAR_RULESETS = [
    [("K", [["Ac"]])],
    [("K", [["Ac"], ["Me", "x"]])],
    [("K", [["Ac"]]), ("[KE]", [["Me"]])],
    [("[ST]", [["Ph"]]), ("K", [["Ac"], ["Me"], ["Bu"]]), ("E", [["Ox"]])],
]
VAR_NTERM = [None, [["Nt"]], [["Nt"], ["Nf", "y"]]]


def build(tier: str) -> List[Cond]:
    conds: List[Cond] = []
    t = 120 if tier == "quick" else 900
    seqs = SEQS_Q if tier == "quick" else SEQS_T
    k = 0
    for seq in seqs:
        L = len(seq)
        flags = [(f"m{i}", "bool") for i in range(L)]
        for ri, rules in enumerate(STATIC_RULESETS):
            for ti in range(len(TERM_RULES)):
                k += 1
                if tier == "quick" and (k % 2):
                    continue
                nrule, crule = TERM_RULES[ti], TERM_RULES[(ti + ri + 1) % len(TERM_RULES)]
                for split in ([None] if L <= 2 else [0, 1, 2]):
                    conds.append(Cond(oid=f"static/{seq}/rules={ri}/nterm={ti}/cterm={(ti + ri + 1) % len(TERM_RULES)}" + (f"/mode={split}" if split is not None else ""),
                                      clause="static rules modify exactly the matched residues/termini, respecting skip/append/overwrite; twice in skip mode = once",
                                      module="vf.h.c13", func="o_static", shape=dict(seq=seq, rules=rules, nrule=nrule, crule=crule),
                                      sym=[("mode_i", "int"), ("as_str", "bool"), ("nt", "bool"), ("ct", "bool")] + flags,
                                      pre=["0 <= mode_i <= 2"] + ([f"mode_i == {split}", f"as_str == {bool(split % 2)}"] if split is not None else []),
                                      timeout=t, functions=FUNCS, bounds=f"sequence {seq}; which residues/termini are pre-modified, mode and return type symbolic"))
        # two rules for one terminus (unconditioned + residue-conditioned, or two conditioned ones): each counts against the input's
        # terminus, not against what an earlier rule of the same call put there
        TWO = [(("", ["Ta"]), (seq[-1], ["Tb"])), ((seq[-1], ["Tb"]), ("[" + seq[-1] + "X]", ["Tc"]))]
        for wi, which in enumerate(("cterm", "nterm")):
            for ti2, (r1, r2) in enumerate(TWO):
                if which == "nterm":
                    r1, r2 = ((r1[0] and seq[0]), r1[1]), ((("[" + seq[0] + "X]") if r2[0].startswith("[") else seq[0]), r2[1])
                if tier == "quick" and L >= 3 and ti2 == 1:
                    continue
                shape = dict(seq=seq, rules=[STATIC_RULESETS[0][0]], nrule=None, crule=None)
                shape.update({"crule": r1, "crule2": r2} if which == "cterm" else {"nrule": r1, "nrule2": r2})
                conds.append(Cond(oid=f"static/{seq}/two-{which}-rules={ti2}", clause="two rules for one terminus: both apply to an unmodified terminus; skip/append/overwrite refer to the input's state",
                                  module="vf.h.c13", func="o_static", shape=shape, sym=[("mode_i", "int"), ("as_str", "bool"), ("nt", "bool"), ("ct", "bool")] + flags,
                                  pre=["0 <= mode_i <= 2"], timeout=t, functions=FUNCS, bounds=f"sequence {seq}; pre-modified residues/termini, mode and return type symbolic"))
        for ri, rules in enumerate(VAR_RULESETS):
            for ni, nrule in enumerate(VAR_NTERM):
                if tier == "quick" and ((ri + ni + L) % 2) and L > 2:
                    continue
                if L >= 4 and ri == 3 and tier == "quick":
                    continue
                if L <= 1:
                    splits = [None]
                elif tier == "quick" and L >= 3:
                    splits = [(0, nt_) for nt_ in (False, True)] + [(1, False), (2, True)]
                else:
                    splits = [(m_, nt_) for m_ in (0, 1, 2) for nt_ in (False, True)]
                for split in splits:
                    conds.append(Cond(oid=f"variable/{seq}/rules={ri}/nterm={ni}" + (f"/mode={split[0]}/nt={int(split[1])}" if split else ""),
                                      clause="variable rules: skip mode = exhaustive subset enumeration (each form once, input included, nothing else); other modes: residues kept, changes confined to matched sites, input form included, no duplicates",
                                      module="vf.h.c13", func="o_variable", shape=dict(seq=seq, rules=rules, nrule=nrule),
                                      sym=[("max_mods", "int"), ("mode_i", "int"), ("as_str", "bool"), ("nt", "bool")] + flags,
                                      pre=["0 <= max_mods", "0 <= mode_i <= 2"] + ([f"mode_i == {split[0]}", f"nt == {split[1]}", f"as_str == {bool(split[0] == 1)}"] if split else []),
                                      timeout=t, functions=FUNCS,
                                      bounds=f"sequence {seq}; max_mods over all integers >=0; pre-modified residues symbolic; N-terminus, mode, return type symbolic or case-split"))
    return conds


def run(tier: str, seed: int, only=None) -> Report:
    from ..ch import tier_conds
    conds = tier_conds(build, tier, cap=300)
    if only:
        conds = [c for c in conds if only in c.oid]
    rep = Report(
        property_id=PID, tier=tier, seed=seed,
        explanation="apply_static_mods and apply_variable_mods run under CrossHair on a peptide whose pre-existing residue/terminal "
                    "modifications are symbolic flags, with the conflict mode, the return type and max_mods (every integer >= 0) symbolic; the "
                    "rule->site step is the regex C extension on a concrete residue string. The oracle is the definitional one: static rules "
                    "per target with the mode's conflict semantics; variable rules in skip mode = every subset of at most max_mods eligible "
                    "sites x one offered group per site, each form exactly once.",
        functions=FUNCS, bounds="sequences " + ", ".join(SEQS_Q if tier == "quick" else SEQS_T) + "; 4 static and 4 variable rule sets (1-3 residue/regex "
                                "targets incl. look-around, 1-3 groups), terminal rules with and without residue condition",
        outside="regex matching itself (concrete strings); sequences up to 10; N-terminal variable groups are not counted against max_mods (the code's reading, stated)",
        assumptions=["S1, S3r, S9", "rule sets with distinct groups per site (identical groups offered twice for one site would be a duplicate by construction)"],
    )
    rep.obligations = run_conds(conds, PID, known=load_known_findings(PID))
    return rep


def replay(rec: dict) -> int:
    from ..ch import replay_native
    inp = rec["inputs"]
    mod, func = inp["call"].rsplit(".", 1)
    r = replay_native(mod, func, {}, {"kwargs": inp["kwargs"]}, [])
    print("replay:", r.get("ok"), r.get("exc") or r.get("last"))
    if r.get("ok") is False:
        print(f"VIOLATION property={PID} replay=(reproduced)")
        return 1
    return 0
