"""C17, engine E2: real-valued m/z lists, absolute and ppm tolerance, and the intensity-fraction clause."""
from __future__ import annotations

import multiprocessing as mp
from concurrent.futures import ProcessPoolExecutor
from typing import Any, Dict, List, Tuple

from ..common import NCPU, Obligation

FUNCS = ["score.get_matched_indices", "score.match_spectra", "score.get_fragment_matches",
         "score.get_matched_intensity_percentage"]


def _match_job(args) -> Obligation:
    mode, ttype, n1, n2, big = args
    import z3
    from .. import symreal as SR
    from ..e2lib import run_e2
    import peptacular.score as SC

    def off_term(a, tol):
        return tol if ttype == "th" else a * tol / 1e6

    def fn():
        a = [SR.real(f"a{i}") for i in range(n1)]
        b = [SR.real(f"b{i}") for i in range(n2)]
        tol = SR.real("tol")
        inten = [SR.real(f"i{i}") for i in range(n2)] if mode == "largest" else None
        SR.assume(tol.t >= 0)
        for x in a + b:
            SR.assume(z3.And(x.t > 0, x.t <= 10000))
        if ttype == "ppm":
            SR.assume(tol.t >= 1000000 if big else tol.t < 1000000)
        else:
            SR.assume(tol.t <= 100000)
        for i in range(n1 - 1):
            SR.assume(a[i].t <= a[i + 1].t)
        for i in range(n2 - 1):
            SR.assume(b[i].t <= b[i + 1].t)
        got = SC.match_spectra(list(a), list(b), tol, ttype, mode, list(inten) if inten is not None else None)
        if len(got) != n1:
            return False
        props = []
        for k in range(n1):
            o = off_term(a[k], tol)
            w = [z3.And(a[k].t - SR.T(o) <= b[j].t, b[j].t <= a[k].t + SR.T(o)) for j in range(n2)]
            g = got[k]
            if g is None:
                props.append(z3.Not(z3.Or(*w)) if w else z3.BoolVal(True))
            elif mode == "all":
                gs = set(g)
                if len(gs) != len(g):
                    return False
                props.append(z3.And(*[(w[j] if j in gs else z3.Not(w[j])) for j in range(n2)]))
            elif mode == "closest":
                d = lambda j: z3.If(a[k].t - b[j].t >= 0, a[k].t - b[j].t, b[j].t - a[k].t)
                props.append(z3.And(w[g], *[z3.Implies(w[j], d(g) <= d(j)) for j in range(n2)]))
            else:
                props.append(z3.And(w[g], *[z3.Implies(w[j], inten[g].t >= inten[j].t) for j in range(n2)]))
        return z3.And(*props) if props else z3.BoolVal(True)

    def replay(model):
        a = [model.get(f"a{i}", 1.0) for i in range(n1)]
        b = [model.get(f"b{i}", 1.0) for i in range(n2)]
        tol = model.get("tol", 0.0)
        inten = [model.get(f"i{i}", 0.0) for i in range(n2)]
        return native_match_replay(mode, ttype, a, b, tol, inten)

    oid = f"E2/match_spectra/{mode}/{ttype}{'-big' if big else ''}/{n1}x{n2}"
    ob = run_e2(oid, f"match_spectra mode={mode} tolerance={ttype} on real-valued sorted lists vs brute force (inclusive bounds)",
                fn, functions=FUNCS[:2], bounds=f"lengths {n1}x{n2}; m/z in (0,1e4]; tolerance >=0" +
                (" and ppm " + (">=1e6" if big else "<1e6") if ttype == "ppm" else " (<=1e5)"),
                replay=replay, budget_s=240 if ttype == "ppm" else 120, timeout_ms=60000)
    if ob.cex is not None:
        ob.cex.update(mode=mode, ttype=ttype, n1=n1, n2=n2)
    return ob


_NATIVE = r'''
def main(p):
    import peptacular.score as SC
    mode, ttype, a, b, tol, inten = p["mode"], p["ttype"], p["a"], p["b"], p["tol"], p["inten"]
    try:
        got = SC.match_spectra(list(a), list(b), tol, ttype, mode, list(inten) if mode == "largest" else None)
    except Exception as e:
        return {"violated": True, "detail": f"{type(e).__name__}: {e}"}
    bad = None
    for k in range(len(a)):
        off = tol if ttype == "th" else a[k] * tol / 1e6
        win = [j for j in range(len(b)) if a[k] - off <= b[j] <= a[k] + off]
        g = got[k]
        if not win:
            if g is not None: bad = (k, g, win)
        elif g is None: bad = (k, g, win)
        elif mode == "all":
            if list(g) != win: bad = (k, g, win)
        elif mode == "closest":
            if g not in win or any(abs(a[k]-b[j]) < abs(a[k]-b[g]) for j in win): bad = (k, g, win)
        else:
            if g not in win or any(inten[j] > inten[g] for j in win): bad = (k, g, win)
    return {"violated": bad is not None, "detail": f"match_spectra({a}, {b}, {tol}, {ttype!r}, {mode!r}, {inten}) = {got}; brute force disagrees at {bad}"}
'''


def native_match_replay(mode, ttype, a, b, tol, inten):
    from ..e2lib import native_call
    res = native_call(_NATIVE, dict(mode=mode, ttype=ttype, a=a, b=b, tol=tol, inten=inten))
    return res["violated"], res["detail"], None


def _fraction_job(args) -> Obligation:
    n1, peaks = args
    import z3
    from .. import symreal as SR
    from ..e2lib import run_e2
    import peptacular.score as SC
    from peptacular.fragmentation import Fragment
    n2 = len(peaks)

    def frag(mz, idx):
        return Fragment(charge=1, ion_type="b", start=0, end=idx + 1, monoisotopic=True, isotope=0, loss=0.0,
                        parent_sequence="PEPTIDE", mass=mz, neutral_mass=mz, mz=mz, sequence="PEPTIDE"[: idx + 1],
                        unmod_sequence="PEPTIDE"[: idx + 1], internal=False)

    def fn():
        a = [SR.real(f"a{i}") for i in range(n1)]
        inten = [SR.real(f"i{i}") for i in range(n2)]
        tol = SR.real("tol")
        SR.assume(z3.And(tol.t >= 0, tol.t <= 1000))
        for x in a:
            SR.assume(z3.And(x.t > 0, x.t <= 10000))
        for x in inten:
            SR.assume(z3.And(x.t >= 0, x.t <= 1000000))
        frags = [frag(a[i], i) for i in range(n1)]
        got = SC.get_fragment_matches(list(frags), list(peaks), list(inten), tol, "th", "all")
        frac = SC.get_matched_intensity_percentage(got, list(inten))
        total = sum(x.t for x in inten)
        matched = 0
        for j in range(n2):
            inwin = z3.Or(*[z3.And(a[i].t - tol.t <= peaks[j], peaks[j] <= a[i].t + tol.t) for i in range(n1)])
            matched = matched + z3.If(inwin, inten[j].t, 0)
        ft = SR.T(frac)
        return z3.And(ft >= 0, ft <= 1, z3.If(total == 0, ft == 0, ft * total == matched))

    def replay(model):
        from ..e2lib import native_call
        code = r'''
def main(p):
    import peptacular.score as SC
    from peptacular.fragmentation import Fragment
    fr = [Fragment(charge=1, ion_type="b", start=0, end=i+1, monoisotopic=True, isotope=0, loss=0.0, parent_sequence="PEPTIDE",
          mass=m, neutral_mass=m, mz=m, sequence="PEPTIDE"[:i+1], unmod_sequence="PEPTIDE"[:i+1], internal=False) for i, m in enumerate(p["a"])]
    try:
        got = SC.get_fragment_matches(fr, list(p["peaks"]), list(p["inten"]), p["tol"], "th", "all")
        frac = SC.get_matched_intensity_percentage(got, list(p["inten"]))
    except Exception as e:
        return {"violated": True, "detail": f"{type(e).__name__}: {e}"}
    tot = sum(p["inten"])
    matched = sum(p["inten"][j] for j in range(len(p["peaks"])) if any(m - p["tol"] <= p["peaks"][j] <= m + p["tol"] for m in p["a"]))
    want = 0 if tot == 0 else matched / tot
    return {"violated": not (0 <= frac <= 1) or abs(frac - want) > 1e-9, "detail": f"fraction={frac!r} expected {want!r} for fragments {p['a']} peaks {p['peaks']} intensities {p['inten']} tol {p['tol']}"}
'''
        res = native_call(code, dict(a=[model.get(f"a{i}", 1.0) for i in range(n1)], peaks=list(peaks),
                                     inten=[model.get(f"i{i}", 0.0) for i in range(n2)], tol=model.get("tol", 0.0)))
        return res["violated"], res["detail"], None

    return run_e2(f"E2/intensity_fraction/{n1}x{n2}/peaks={','.join(map(str, peaks))}",
                  "matched-intensity fraction = intensity of distinct matched peaks / total, in [0,1]", fn, functions=FUNCS[2:],
                  bounds=f"{n1} fragments with symbolic m/z in (0,1e4], tolerance in [0,1e3], peak m/z concrete {peaks} (dict key), intensities symbolic >=0",
                  replay=replay, budget_s=120)


def jobs(tier: str):
    J = []
    if tier == "quick":
        sizes_th = [(n1, n2) for n1 in range(0, 4) for n2 in range(0, 4)]
        sizes_ppm = [(n1, n2) for n1 in range(1, 4) for n2 in range(1, 4)]
        sizes_ppm_closest = [(1, 2), (2, 2), (2, 3), (3, 2)]
    else:
        sizes_th = [(n1, n2) for n1 in range(0, 5) for n2 in range(0, 5)]
        sizes_ppm = [(n1, n2) for n1 in range(1, 5) for n2 in range(1, 5) if n1 * n2 <= 12]
        sizes_ppm_closest = [(1, 2), (2, 2), (2, 3), (3, 2), (3, 3)]
    for mode in ("all", "closest", "largest"):
        for (n1, n2) in sizes_th:
            J.append(("match", (mode, "th", n1, n2, False)))
        for (n1, n2) in (sizes_ppm_closest if mode == "closest" else sizes_ppm):
            J.append(("match", (mode, "ppm", n1, n2, False)))
        J.append(("match", (mode, "ppm", 1, 2, True)))
        J.append(("match", (mode, "ppm", 2, 2, True)))
    grids = [(100.0,), (100.0, 200.0), (100.0, 100.5, 101.0)] if tier == "quick" else \
            [(100.0,), (100.0, 200.0), (100.0, 100.5, 101.0), (50.0, 100.0, 100.25, 400.0)]
    for peaks in grids:
        for n1 in (1, 2) if tier == "quick" else (1, 2, 3):
            J.append(("fraction", (n1, peaks)))
    return J


def _dispatch(job):
    kind, args = job
    return _match_job(args) if kind == "match" else _fraction_job(args)


def run(tier: str) -> List[Obligation]:
    J = jobs(tier)
    with ProcessPoolExecutor(max_workers=NCPU, mp_context=mp.get_context("spawn")) as ex:
        return list(ex.map(_dispatch, J))


def replay(inp) -> int:
    m = inp.get("model", {})
    if "mode" in inp:
        n1, n2 = inp["n1"], inp["n2"]
        v, d, _ = native_match_replay(inp["mode"], inp["ttype"], [m.get(f"a{i}", 1.0) for i in range(n1)],
                                      [m.get(f"b{i}", 1.0) for i in range(n2)], m.get("tol", 0.0), [m.get(f"i{i}", 0.0) for i in range(n2)])
        print("replay:", d)
        if v:
            print("VIOLATION property=C17 replay=(reproduced)")
            return 1
    return 0
