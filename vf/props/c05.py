"""C05 ion-series chemistry — E2: symbolic residue/modification masses, offsets from the independent NIST table."""
from __future__ import annotations

import multiprocessing as mp
from concurrent.futures import ProcessPoolExecutor
from fractions import Fraction
from typing import Any, Dict, List, Tuple

from ..common import CEX, DISCHARGED, INCONCLUSIVE, NCPU, Obligation, Report, load_known_findings
from . import c04

PID = "C05"
FUNCS = ["fragmentation.fragment", "fragmentation._build_fragments", "mass_calc.mass", "mass_calc.adjust_mass",
         "chem_constants.*_FRAGMENT_ADJUSTMENTS", "chem_constants.*_FRAGMENT_ION_ADJUSTMENTS", "constants.FRAGMENT_ION_COMPOSITIONS",
         "constants.NEUTRAL_FRAGMENT_*_COMPOSITIONS", "constants.PROTON_MASS"]
TOL = 1e-5
F_INTERNAL_H = "C05-F1"
F_AVG_CARRIER = "C05-F2"


def offsets(mono: bool) -> Dict[str, Fraction]:
    """singly charged ion = sum(residues of the span incl. their modifications) + offset; from the independent table"""
    from .. import oracles as O
    m = (lambda f: O.formula_mass(f, mono))
    p = O.PROTON
    CO, NH3, H2, H2O = m("CO"), m("NH3"), m("H2"), m("H2O")
    fwd = {"a": -CO, "b": Fraction(0), "c": NH3}
    bwd = {"x": CO - H2, "y": Fraction(0), "z": -NH3}
    off = {}
    for f, d in fwd.items():
        off[f] = d + p
    for b, d in bwd.items():
        off[b] = H2O + d + p
    off["i"] = -CO + p
    for f, df in fwd.items():
        for b, db in bwd.items():
            off[f + b] = df + db + p
    return off


def relations(sc, V, oenv, ion, M, excl, symbolic):
    """The property text, relation by relation: yields (name, lhs, rhs).  `ion[(type,start,end,charge)]` = ion mass."""
    from .. import oracles as O
    from .. import massmodel as MM
    n = len(sc["seq"])
    mono = sc["mono"]
    m = (lambda f: O.formula_mass(f, mono))
    p = O.PROTON
    CO, NH3, H2, H2O, H = m("CO"), m("NH3"), m("H2"), m("H2O"), m("H")
    fwd = {"a": -CO, "b": Fraction(0), "c": NH3}
    bwd = {"x": CO - H2, "y": Fraction(0), "z": -NH3}
    charges = sc["charges"]
    sc_nolab = {k: v for k, v in sc.items() if k != "labile"}

    def num(x):
        if symbolic:
            from .. import symreal as SR
            return SR.const(x)
        return float(x)

    def span(s, e):
        return MM.residue_and_mod_mass_oracle(sc_nolab, V, oenv, mono, "b", s, e, with_nterm=(s == 0), with_cterm=(e == n))

    # known finding C05-F2 (average mode: the first charge carrier of a fragment ion weighs H(avg) - e, not a proton)
    carrier = (O.formula_mass("H", False) - O.formula_mass("H", True)) if (F_AVG_CARRIER in excl and not mono) else Fraction(0)
    for i in range(1, n):                                     # R1
        yield (f"b{i}+y{n-i}=M+2p", ion[("b", 0, i, 1)] + ion[("y", i, n, 1)], M + num(2 * p + 2 * carrier))
    for c in charges:
        for i in range(1, n + 1):                             # R2 forward series relative to b
            for t in ("a", "c"):
                yield (f"{t}{i}-b{i} z{c}", ion[(t, 0, i, c)], ion[("b", 0, i, c)] + num(fwd[t]))
        for s0 in range(0, n):                                # R2 backward series relative to y
            for t in ("x", "z"):
                yield (f"{t}{n-s0}-y{n-s0} z{c}", ion[(t, s0, n, c)], ion[("y", s0, n, c)] + num(bwd[t]))
        if c != 1:                                            # R5
            for key in list(ion):
                if key[3] == c:
                    yield (f"{key[0]}[{key[1]},{key[2]}] z{c} = z1 + {c-1}p", ion[key], ion[(key[0], key[1], key[2], 1)] + num(p * (c - 1)))
    for i in range(n):                                        # R3
        yield (f"immonium{i}", ion[("i", i, i + 1, 1)], span(i, i + 1) + num(-CO + p + carrier))
    for s0 in range(1, n):                                    # R4
        for e0 in range(s0 + 1, n):
            for f, df in fwd.items():
                for b, db in bwd.items():
                    o = df + db + p + carrier
                    if F_INTERNAL_H in excl and f + b in ("ax", "az", "bx", "bz"):
                        o = o + H
                    yield (f"internal {f}{b}[{s0},{e0}]", ion[(f + b, s0, e0, 1)], span(s0, e0) + num(o))
    for i in range(2, n + 1):                                 # R6 consecutive differences carry exactly residue i's own parts
        yield (f"b{i}-b{i-1}", ion[("b", 0, i, 1)], ion[("b", 0, i - 1, 1)] + span(i - 1, i))
    for s0 in range(0, n - 1):
        yield (f"y{n-s0}-y{n-s0-1}", ion[("y", s0, n, 1)], ion[("y", s0 + 1, n, 1)] + span(s0, s0 + 1))


def scenarios(tier: str) -> List[Dict[str, Any]]:
    # since session 5 the quick tier runs what used to be the thorough scope (seconds); thorough adds peptides up to the
    # property's own bound of 15 residues (all 22 letters occur in each tier)
    # PEP, KSK, TEDET: the terminal residues occur again inside the peptide (a residue-keyed cache or lookup that forgets the
    # terminus would give the inner occurrence the terminal modification, or the terminal one none)
    seqs = ["PE", "PEP", "SEK", "KSK", "TUDO", "KSTRN", "TEDET", "MQDESKW", "ACDEFGH", "VLIYPC"] + (["PEPTIDEPEPK", "ACDEFGHIKLMNPQR", "STVWYUOACDEFGHI"] if tier == "thorough" else [])
    mod_cfgs = [
        {},
        {"nterm": [["num", "v0", 1]]},
        {"cterm": [["num", "v1", 2]]},
        {"internal": {"0": [["num", "v2", 1]]}},
        {"internal": {"L": [["num", "v3", 3]], "0": [["formula", "C2H3", 1]]}},
        {"nterm": [["formula", "H-2O", 1]], "cterm": [["num", "v1", 1]], "internal": {"0": [["num", "v2", 2]], "L": [["num", "v3", 1]]}},
        {"cterm": [["formula", "C2H3", 1]], "nterm": [["formula", "[13C2]N", 2]]},
        {"cterm": [["formula", "O", 2]], "internal": {"L": [["formula", "C2H3", 1]]}},
    ]
    out = []
    for seq in seqs:
        n = len(seq)
        for mc in mod_cfgs:
            for mono in (True, False):
                for charges in ([1], [1, 2, 3, 4]):
                  # both entry points: fragment() and the caching Fragmenter class (its own monoisotopic setting, cached components)
                  for entry in ("function", "Fragmenter"):
                    sc: Dict[str, Any] = {"seq": seq, "mono": mono, "charges": charges, "isotopes": [0], "loss_cfg": {},
                                          "ions": list(c04.ALL16), "entry": entry}
                    for key, val in mc.items():
                        if key == "internal":
                            sc["internal"] = {("0" if kk == "0" else str(n - 1)): v for kk, v in val.items()}
                        else:
                            sc[key] = val
                    out.append(sc)
    return out


def frags_of(sc, ann):
    """the fragment ions through the scenario's entry point"""
    from peptacular.fragmentation import fragment, Fragmenter
    kw = c04._frag_kwargs(sc)
    if sc.get("entry") == "Fragmenter":
        return Fragmenter(ann, sc["mono"]).fragment(return_type="fragment", **{k: v for k, v in kw.items() if k != "monoisotopic"})
    return fragment(ann, return_type="fragment", **kw)


def check_scenario(sc: Dict[str, Any], excl=()) -> Obligation:
    import z3
    from .. import symreal as SR
    from .. import massmodel as MM
    from .. import oracles as O
    from ..e2lib import run_e2
    from ..smt import rat
    from peptacular.mass_calc import mass
    from peptacular.fragmentation import fragment
    n = len(sc["seq"])
    mono = sc["mono"]
    slots = MM.value_slots(sc)
    off = offsets(mono)
    H = O.formula_mass("H", mono)

    def fn():
        env = MM.Env(sym=True, real_parts=("fa", "fi", "particles", "el", "um", "gl"))
        V = lambda name: SR.real(name)
        for s_ in slots:
            SR.assume(z3.And(SR.T(V(s_)) >= -10000, SR.T(V(s_)) <= 10000))
        props = []
        with MM.symbolic_tables([sc], env, ions=()):
            for nm, v in list(env.symbols.items()):
                SR.assume(z3.And(SR.T(v) > 0, SR.T(v) < 1000))
            ann = MM.build(sc, V)
            frs = frags_of(sc, ann)
            M = mass(ann, charge=0, ion_type="p", monoisotopic=mono)
        # the oracle's elements must not be the library's: formula modifications use the independent table too
        oenv = _OracleEnv(env, mono)
        ion = {}
        for f in frs:
            ion[(f.ion_type, f.start, f.end, f.charge)] = f.mass
        fn.relations = 0
        for rel, lhs, rhs in relations(sc, V, oenv, ion, M, excl, symbolic=True):
            props.append(SR.close(lhs, rhs, TOL))
            fn.relations += 1
        # modifications shift exactly the ions that contain them: what is left of b_1 / y_1 after removing the first / last
        # residue with its modifications must not depend on any symbol
        sc_nolab = {k: v for k, v in sc.items() if k != "labile"}
        for key, (s0, e0) in ((("b", 0, 1, 1), (0, 1)), (("y", n - 1, n, 1), (n - 1, n))):
            rest = SR.T(ion[key]) - SR.T(MM.residue_and_mod_mass_oracle(sc_nolab, V, oenv, mono, "b", s0, e0, with_nterm=(s0 == 0), with_cterm=(e0 == n)))
            names = [z3.Real(nm) for nm in SR.CTX.names]
            props.append(rest == z3.substitute(rest, *[(x, z3.RealVal(1)) for x in names]))
        return z3.And(*props)

    def replay(model):
        return native_replay(sc, model, excl)

    oid = "chem/" + "/".join([sc["seq"], "mono" if mono else "avg", "via=" + sc.get("entry", "function"), "z=" + str(sc["charges"]).replace(" ", ""),
                              "mods=" + ("+".join(k for k in ("nterm", "cterm", "internal") if sc.get(k)) or "-")]) + \
          ("/minus-" + "-".join(excl) if excl else "")
    ob = run_e2(oid, "b_i + y_(n-i) = M + 2p; every series sits at its chemical offset (independent atomic masses) from the span's "
                     "residues+modifications; charge k adds (k-1) protons", fn, functions=FUNCS,
                bounds="residue masses symbolic in (0,1000), |mod values|<=1e4", replay=replay, budget_s=120)
    if ob.cex is not None:
        ob.cex["scenario"] = sc
        ob.cex["excl"] = list(excl)
    return ob


class _OracleEnv:
    """residue masses: the symbols; everything else from the independent table (never from the library)."""

    def __init__(self, env, mono):
        self.env = env

    def aa(self, letter, mono):
        return self.env.aa(letter, mono)

    def el(self, el, mono):
        from .. import oracles as O
        from ..smt import rat
        from .. import massmodel as MM
        from .. import symreal as SR
        if MM.is_isotope_symbol(el):
            return SR.const(O.isotope(el))
        return SR.const(O.mono(el) if mono else O.avg(el))

    def unimod(self, name, mono):
        raise NotImplementedError

    mono_sacch = unimod


_NATIVE = r'''
from vf import massmodel as MM, oracles as O
from vf.props import c04, c05
def main(p):
    import peptacular as pt
    from peptacular.fragmentation import fragment
    sc, model, excl = p["sc"], p["model"], tuple(p["excl"])
    mono = sc["mono"]
    V = lambda name: float(model.get(name, 0.0))
    ann = MM.build(sc, V)
    text = ann.serialize()
    n = len(sc["seq"])
    off = c05.offsets(mono)
    problems, sites = [], set()
    frs = c05.frags_of(sc, ann)
    M = pt.mass(ann, charge=0, ion_type="p", monoisotopic=mono)
    class E:
        def aa(self, l, mono): return float(O.formula_mass(O.RESIDUES[l], mono))
        def el(self, e, mono): return float(O.isotope(e)) if MM.is_isotope_symbol(e) else float(O.mono(e) if mono else O.avg(e))
    ion = {(f.ion_type, f.start, f.end, f.charge): f.mass for f in frs}
    Havg_minus_mono = float(O.formula_mass("H", False) - O.formula_mass("H", True))
    Hm = float(O.formula_mass("H", mono))
    for rel, lhs, rhs in c05.relations(sc, V, E(), ion, M, excl, symbolic=False):
        if abs(lhs - rhs) > c05.TOL:
            d = lhs - rhs
            problems.append(f"{rel}: {lhs!r} vs {rhs!r} (diff {d:+.6f})")
            kind = "other"
            if rel.startswith("internal") and rel.split()[1][:2] in ("ax", "az", "bx", "bz") and abs(d - Hm) <= c05.TOL and c05.F_INTERNAL_H not in excl:
                kind = c05.F_INTERNAL_H
            if not mono and c05.F_AVG_CARRIER not in excl:
                k = 2 if rel.startswith("b") and "+y" in rel else 1
                if (rel.startswith("internal") or rel.startswith("immonium") or "+y" in rel):
                    extra = Hm if (rel.startswith("internal") and rel.split()[1][:2] in ("ax", "az", "bx", "bz") and c05.F_INTERNAL_H not in excl) else 0.0
                    if abs(d - extra - k * Havg_minus_mono) <= c05.TOL:
                        kind = c05.F_AVG_CARRIER
            sites.add(kind)
    site = list(sites)[0] if problems and len(sites) == 1 and "other" not in sites else None
    return {"violated": bool(problems), "detail": f"{text} ({'mono' if mono else 'avg'}): " + "; ".join(problems[:3]), "site": site}
'''


def native_replay(sc, model, excl=()):
    from ..e2lib import native_call
    res = native_call(_NATIVE, {"sc": sc, "model": model, "excl": list(excl)})
    return res["violated"], res["detail"], res.get("site")


def _work(args):
    sc, known = args
    out = []
    excl: Tuple[str, ...] = ()
    for _ in range(3):
        ob = check_scenario(sc, excl)
        out.append(ob)
        if ob.status == CEX and ob.replayed and ob.finding in known and ob.finding not in excl:
            excl = excl + (ob.finding,)
            continue
        break
    return out


def run(tier: str, seed: int, only=None) -> Report:
    scs = scenarios(tier)
    known = tuple(f["id"] for f in load_known_findings(PID))
    rep = Report(
        property_id=PID, tier=tier, seed=seed,
        explanation="fragment() and mass() run natively with the residue masses and modification values as z3 Real symbols and the "
                    "library's own offset tables at their real values (E2); z3 is asked, per shape, for residue/modification masses for "
                    "which any ion deviates by more than 1e-5 Da from span + chemical offset, the offsets (CO, NH3, H2, H2O, proton) being "
                    "computed from the independent NIST/CODATA table in vf/oracles.py, and for which b_i + y_(n-i) != M + 2p. A wrong "
                    "entry in the library's composition tables (which C04 cannot see) is therefore a counterexample.",
        functions=FUNCS,
        bounds="peptides PE, PEP, SEK, KSK, TUDO, KSTRN, TEDET (terminal residues repeated inside), MQDESKW, ACDEFGH, VLIYPC" + ("" if tier == "quick" else ", PEPTIDEPEPK, ACDEFGHIKLMNPQR, STVWYUOACDEFGHI") + " (20 standard letters + U, O "
               "covered in each tier; length 2..15 in thorough); all 16 ion types at once; charges {1} and {1,2,3,4}; mono and average; numeric and formula "
               "modifications at termini and residues with multipliers 1..3",
        outside="peptides longer than 7; isotopes/losses (C04); IEEE rounding (S5)",
        assumptions=["S4: only residue masses are rebound to symbols; offsets stay real", "S5 floats are reals",
                     "independent table: NIST 2016 atomic masses and isotopic compositions, CODATA 2018 proton"],
    )
    with ProcessPoolExecutor(max_workers=NCPU, mp_context=mp.get_context("spawn")) as ex:
        res = list(ex.map(_work, [(s, known) for s in scs], chunksize=2))
    rep.obligations = [o for lst in res for o in lst]
    return rep


def replay(rec: dict) -> int:
    inp = rec["inputs"]
    violated, detail, site = native_replay(inp["scenario"], inp["model"], tuple(inp.get("excl", ())))
    print("replay:", detail)
    if violated:
        print(f"VIOLATION property={PID} replay=(reproduced)")
        return 1
    return 0
