"""C01 text <-> annotation — E1 (CrossHair): residue letters, positions, interval bounds, flags symbolic; slots/spellings = shape."""
from __future__ import annotations

import itertools
from typing import Any, Dict, List

from ..ch import Cond, run_conds
from ..common import Report, load_known_findings

PID = "C01"
FUNCS = ["proforma_parser.parse", "_ProFormaParser.*", "proforma_parser._serialize_annotation(_start/_middle/_end)", "Mod.serialize",
         "Mod.__post_init__/util.convert_type", "MultiProFormaAnnotation.serialize", "proforma_parser.create_annotation",
         "proforma_parser.create_multi_annotation", "input_convert.fix_*"]

LIST_SLOTS = ["labile", "unknown", "nterm", "cterm", "res", "interval"]
ALL_SLOTS = LIST_SLOTS + ["static", "isotope", "charge"]
MULTS = [1, 2, 3, 10]
CHARGES = [-3, -1, 1, 2]
LETTERS = "ACDEFGHIKLMNPQRSTVWYBJOUXZ"


def make_spec(slots, r: int, npal: int) -> Dict[str, Any]:
    spec: Dict[str, Any] = {}
    for j, slot in enumerate(slots):
        if slot in LIST_SLOTS:
            e1 = ((r + 7 * j) % npal, MULTS[(r + j) % 4])
            entries = [e1]
            if (r + j) % 3 == 0:
                entries.append(((r + 7 * j + 11) % npal, MULTS[(r + j + 1) % 4]))
            spec[slot] = entries
        elif slot == "static":
            spec["static"] = [r % 5] + ([(r + 2) % 5] if r % 2 else [])
        elif slot == "isotope":
            spec["isotope"] = [r % 8] + ([(r + 3) % 8] if r % 3 == 1 else [])
        elif slot == "charge":
            spec["charge"] = CHARGES[r % 4]
            if r % 2 == 0:
                spec["adducts"] = (r // 2) % 4
    return spec


def spec_id(spec) -> str:
    parts = []
    for k, v in spec.items():
        if isinstance(v, list):
            parts.append(k + "=" + ".".join(f"{e[0]}^{e[1]}" if isinstance(e, tuple) else str(e) for e in v))
        else:
            parts.append(f"{k}={v}")
    return ",".join(parts)


def build(tier: str) -> List[Cond]:
    from ..h import c01 as H          # palette sizes only
    npal = len(H.PALETTE)
    conds: List[Cond] = []
    t = 90 if tier == "quick" else 600
    lens = [1, 2, 3] if tier == "quick" else [1, 2, 3, 4, 5]

    def add(func, L, spec, tag, clause):
        sym = [("seq", "str"), ("p", "int"), ("a", "int"), ("b", "int"), ("amb", "bool")]
        pre = [f"len(seq) == {L}", f"all(c in {LETTERS!r} for c in seq)", f"0 <= p < {L}", f"0 <= a < b <= {L}"]
        if func == "o_roundtrip":
            sym.append(("plus", "bool"))
        conds.append(Cond(oid=f"{tag}/L={L}/{spec_id(spec)}", clause=clause, module="vf.h.c01", func=func, shape=dict(L=L, spec=spec), sym=sym,
                          pre=pre, timeout=t, functions=FUNCS,
                          bounds=f"{L} residues over the 26 letters (symbolic), modification position, interval bounds and ambiguity, include_plus symbolic"))

    A = "structure -> serialize -> parse gives the same annotation; re-serialization is identical; include_plus does not change the meaning"
    B = "text written by an independent generator parses to exactly the structure the notation denotes"
    r = 0
    # every spelling meets every list slot at least once (single-slot shapes, L=2)
    for pi in range(npal):
        for j, slot in enumerate(LIST_SLOTS):
            if tier == "quick" and (pi + j) % 2:
                continue
            spec = {slot: [(pi, MULTS[(pi // 2 + j) % 4])]}
            add("o_roundtrip", 2, spec, "A1", A)
            if tier == "thorough" or (pi + j) % 4 == 0:
                add("o_text", 2, spec, "B1", B)
    # every slot alone and every pair (triples in thorough) over the lengths, spellings rotated
    for L in lens:
        subsets = [(s,) for s in ALL_SLOTS] + list(itertools.combinations(ALL_SLOTS, 2))
        if tier == "thorough":
            subsets += list(itertools.combinations(ALL_SLOTS, 3))
        subsets.append(tuple(ALL_SLOTS))
        for sub in subsets:
            r += 1
            if tier == "quick" and L == 3 and ((len(sub) == 2 and r % 2) or len(sub) > 2):
                continue
            spec = make_spec(sub, r, npal)
            add("o_roundtrip", L, spec, "A2", A)
            if tier == "thorough" or r % 3 == 0 or len(sub) > 2:
                add("o_text", L, spec, "B2", B)
    # equality by the library's own == : mixed numeric / named values at one position (ordering and hashing of Mod values)
    E = "the annotation parsed back from its serialization is == to the original (library ==, both directions, != consistent)"
    mixes = [((11, 1), (0, 2)), ((14, 3), (19, 1)), ((15, 1), (22, 1)), ((13, 2), (26, 1), (29, 1))]
    for j, slot in enumerate(LIST_SLOTS):
        for k, mix in enumerate(mixes):
            if tier == "quick" and (j + k) % 2:
                continue
            spec = {slot: list(mix)}
            conds.append(Cond(oid=f"E/L=2/{spec_id(spec)}", clause=E, module="vf.h.c01", func="o_equal", shape=dict(L=2, spec=spec),
                              sym=[("p", "int"), ("a", "int"), ("b", "int"), ("amb", "bool"), ("plus", "bool")], pre=["0 <= p < 2", "0 <= a < b <= 2"],
                              timeout=t, functions=FUNCS + ["ProFormaAnnotation.__eq__", "Mod.__lt__/__hash__", "Interval.__hash__"],
                              bounds="2 residues (concrete), positions, interval bounds, ambiguity and include_plus realised (solver-driven enumeration)"))
    full = {slot: list(mixes[i % len(mixes)]) for i, slot in enumerate(LIST_SLOTS)}
    full.update(static=[0, 2], isotope=[0, 1], charge=2, adducts=1)
    conds.append(Cond(oid="E/L=3/all-slots", clause=E, module="vf.h.c01", func="o_equal", shape=dict(L=3, spec=full),
                      sym=[("p", "int"), ("a", "int"), ("b", "int"), ("amb", "bool"), ("plus", "bool")], pre=["0 <= p < 3", "0 <= a < b <= 3"],
                      timeout=t, functions=FUNCS + ["ProFormaAnnotation.__eq__"], bounds="3 residues, every slot filled with mixed values"))
    # multi-chain
    for n in (2, 3):
        for L in (1, 2):
            # every chain with its own charge and adduct list / every global kind on every chain (state must not leak between chains)
            for tag_, specs in (("charge-adducts", [{"charge": CHARGES[(k + 1) % 4], "adducts": (k + n) % 4} for k in range(n)]),
                                ("adducts-first-only", [{"charge": 2, "adducts": 1}] + [{} for _ in range(n - 1)]),
                                ("globals", [{"labile": [(k, 1)], "static": [k % 5], "isotope": [k % 8], "unknown": [(k + 3, 2)], "nterm": [(k + 5, 1)], "cterm": [(k + 9, 3)]} if k % 2 == 0 else {} for k in range(n)])):
                for fn_, ot in (("o_multi", "M"), ("o_multi_text", "MB")):
                    conds.append(Cond(oid=f"{ot}/n={n}/L={L}/{tag_}", clause="multi-chain: what one chain carries never shows up on another",
                                      module="vf.h.c01", func=fn_, shape=dict(L=L, specs=specs),
                                      sym=[("seqs", "str"), ("c0", "bool"), ("c1", "bool")] + ([("plus", "bool")] if fn_ == "o_multi" else []),
                                      pre=[f"len(seqs) == {n * L}", f"all(c in {LETTERS!r} for c in seqs)"] + (["c1 == False"] if n == 2 else []),
                                      timeout=t, functions=FUNCS, bounds=f"{n} chains of {L} symbolic residues, connection kinds symbolic"))
            for rr in range(3 if tier == "quick" else 8):
                specs = [make_spec([ALL_SLOTS[(rr + k * 2) % 9], ALL_SLOTS[(rr + k * 3 + 1) % 9]], rr + k, npal) for k in range(n)]
                for sp in specs:
                    sp.pop("interval", None)
                    sp.pop("res", None)
                conds.append(Cond(oid=f"M/n={n}/L={L}/" + "|".join(spec_id(s) for s in specs), clause="multi-chain strings joined by '+' or '//' round-trip",
                                  module="vf.h.c01", func="o_multi", shape=dict(L=L, specs=specs),
                                  sym=[("seqs", "str"), ("c0", "bool"), ("c1", "bool"), ("plus", "bool")],
                                  pre=[f"len(seqs) == {n * L}", f"all(c in {LETTERS!r} for c in seqs)"] + (["c1 == False"] if n == 2 else []),
                                  timeout=t, functions=FUNCS, bounds=f"{n} chains of {L} symbolic residues, connection kinds symbolic"))
                conds.append(Cond(oid=f"MB/n={n}/L={L}/" + "|".join(spec_id(s) for s in specs), clause="multi-chain text ('+' and '//') parses to the chains and links it denotes",
                                  module="vf.h.c01", func="o_multi_text", shape=dict(L=L, specs=specs),
                                  sym=[("seqs", "str"), ("c0", "bool"), ("c1", "bool")],
                                  pre=[f"len(seqs) == {n * L}", f"all(c in {LETTERS!r} for c in seqs)"] + (["c1 == False"] if n == 2 else []),
                                  timeout=t, functions=FUNCS, bounds=f"{n} chains of {L} symbolic residues, connection kinds symbolic"))
    return conds


def run(tier: str, seed: int, only=None) -> Report:
    from ..ch import tier_conds
    conds = tier_conds(build, tier, cap=900)
    if only:
        conds = [c for c in conds if only in c.oid]
    rep = Report(
        property_id=PID, tier=tier, seed=seed,
        explanation="Direction A: an annotation is built through the public constructor from a symbolic residue string (all 26^L strings at "
                    "once), symbolic modification position, interval bounds, ambiguity flag and include_plus, and shape-chosen slots, "
                    "spellings, multipliers, charge and adducts; CrossHair must confirm that serialize -> parse returns the intended "
                    "structure (field dump written down independently), that re-serialization is the identity and that include_plus does "
                    "not change the meaning. Direction B: the text is written by an independent generator in vf/h/c01.py (different but "
                    "legal order of the global sections) and parse() must return exactly the denoted structure. Multi-chain: 2-3 chains "
                    "with symbolic link kinds.",
        functions=FUNCS,
        bounds="L<=3 (quick) / <=5 (thorough); 34 spellings x 6 list slots; every slot alone, every pair (quick) and triple (thorough) of the 9 "
               "slots, all 9 at once; multipliers {1,2,3,10}; charge {-3,-1,1,2} with/without 4 adduct lists; 1-3 chains",
        outside="free-text modification names beyond the palette; multipliers >10; nested interval/ambiguity forms the library does not document",
        assumptions=["S1, S2", "palette/multiplier/charge values are concrete (they would be realised at f-string formatting anyway)"],
    )
    rep.obligations = run_conds(conds, PID, known=load_known_findings(PID))
    return rep


def replay(rec: dict) -> int:
    from ..ch import replay_native
    inp = rec["inputs"]
    mod, func = inp["call"].rsplit(".", 1)
    r = replay_native(mod, func, {}, {"kwargs": inp["kwargs"]}, [])
    print("replay:", r.get("ok"), r.get("exc") or r.get("last"))
    if r.get("ok") is False:
        print(f"VIOLATION property={PID} replay=(reproduced)")
        return 1
    return 0
