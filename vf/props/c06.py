"""C06 digestion spans — E1 (CrossHair): arithmetic parameters symbolic and unbounded, site layout = shape."""
from __future__ import annotations

import itertools
from typing import List

from ..ch import Cond, run_conds
from ..common import Report, load_known_findings

PID = "C06"
FUNCS = ["spans.build_spans", "spans.build_enzymatic_spans", "spans.build_semi_spans",
         "spans._grouped_left_semi_span_builder", "spans._grouped_right_semi_span_builder",
         "spans.build_left_semi_spans", "spans.build_right_semi_spans", "spans.build_non_enzymatic_spans",
         "digestion.digest", "digestion.digest_from_config", "digestion.sequential_digest",
         "digestion._return_digested_sequences(span)"]


def layouts(n: int):
    interior = list(range(1, n))
    out = []
    for r in range(len(interior) + 1):
        for sub in itertools.combinations(interior, r):
            out.append(tuple(sub))
    full = tuple(interior)
    extra = []
    for ends in ((0,), (n,), (0, n)):
        extra.append(tuple(sorted(set(full) | set(ends))))
        if n > 1:
            extra.append(tuple(sorted(set(ends))))
    seen = []
    for l in out + extra:
        if l not in seen:
            seen.append(l)
    return seen


def dup_layouts(n: int):
    """the same site reported more than once (several rules cutting at one position): multiplicity must not matter, in
    particular a list of exactly n+1 entries that does not cover every position is not the non-specific rule"""
    out = []
    for l in layouts(n):
        if not l:
            continue
        pad = n + 1 - len(l)
        cand = [tuple(l) + (l[-1],) * pad] if 0 < pad <= 3 else []
        if len(l) == 1:
            cand.append(tuple(l) * 2)
        for c in cand:
            if c not in out and len(set(c)) < n + 1:
                out.append(c)
    return out


def build(tier: str) -> List[Cond]:
    conds: List[Cond] = []
    nmax = 4 if tier == "quick" else 6
    t = 60 if tier == "quick" else 240
    pre_all = ["mc >= 0", "mn >= 1", "mx >= 1"]
    for n in range(0, nmax + 1):
        for sites in layouts(n) + dup_layouts(n):
            variants = [(False, False)]
            if n <= 3 or (tier == "thorough" and n <= 4):
                variants += [(True, True)]
            for mn_none, mx_none in variants:
                conds.append(Cond(
                    oid=f"O1/build_spans/n={n}/sites={','.join(map(str, sites)) or '-'}/none={int(mn_none)}{int(mx_none)}",
                    clause="spans = ends at termini/sites, <= mc sites inside, semi extension, inclusive length bounds, "
                           "missed-cleavage value, no duplicates; non-specific shortcut",
                    module="vf.h.c06", func="o1_build_spans",
                    shape=dict(n=n, sites=sites, mn_none=mn_none, mx_none=mx_none),
                    sym=[("mc", "int"), ("mn", "int"), ("mx", "int"), ("semi", "bool")], pre=pre_all, timeout=t,
                    functions=FUNCS[:8], bounds=f"n={n}, site layout fixed; mc>=0, min_len>=1, max_len>=1 unbounded"))
    for kind in ("non", "left", "right"):
        for mn_none, mx_none in ((False, False), (True, True), (True, False), (False, True)):
            conds.append(Cond(
                oid=f"O2/{kind}/none={int(mn_none)}{int(mx_none)}", clause="single-span builders on an arbitrary span",
                module="vf.h.c06", func="o2_single", shape=dict(kind=kind, mn_none=mn_none, mx_none=mx_none),
                sym=[("a", "int"), ("ln", "int"), ("v", "int"), ("mn", "int"), ("mx", "int")],
                pre=["a >= 0", "0 <= ln <= (4 if %r else 6)" % (tier == "quick"), "v >= 0", "mn >= 1", "mx >= 1"],
                timeout=t, functions=FUNCS[5:8], bounds="span start a>=0 unbounded, length <= 4 (quick) / 6 (thorough), min/max unbounded"))
    # O3 digest through the public entry points, site stub S3
    n3 = 3 if tier == "quick" else 5
    for n in range(0, n3 + 1):
        lays = layouts(n)
        rule_sets = [(l,) for l in lays]
        # two rules: split each layout with >=2 sites in two halves + overlapping rules
        for l in lays:
            if len(l) >= 2:
                rule_sets.append((l[:1], l[1:]))
                rule_sets.append((l[:-1], l[-2:]))
        for rules in rule_sets:
            for via_config in ((False, True) if len(rules) == 1 and n == n3 else (False,)):
                conds.append(Cond(
                    oid=f"O3/digest/n={n}/rules={'|'.join(','.join(map(str, r)) or '-' for r in rules)}/cfg={int(via_config)}",
                    clause="digest(): union of rules, partial digestion adds the undigested sequence, sort_output, span return type",
                    module="vf.h.c06", func="o3_digest",
                    shape=dict(n=n, rules=rules, mn_none=False, mx_none=False, via_config=via_config),
                    sym=[("mc", "int"), ("mn", "int"), ("mx", "int"), ("semi", "bool"), ("complete", "bool"), ("sort_out", "bool")],
                    pre=pre_all, timeout=t, functions=FUNCS[8:], bounds=f"n={n}; rules' site sets fixed (S3); mc,min,max unbounded"))
    n4 = 4 if tier == "quick" else 5
    for n in range(1, n4 + 1):
        ints = list(range(1, n))
        subsets = [tuple(s) for r in range(len(ints) + 1) for s in itertools.combinations(ints, r)]
        for s1 in subsets:
            for s2 in subsets:
                if tier == "quick" and (len(s1) + len(s2) > 3):
                    continue
                conds.append(Cond(
                    oid=f"O4/sequential/n={n}/s1={','.join(map(str, s1)) or '-'}/s2={','.join(map(str, s2)) or '-'}",
                    clause="sequential digest with complete zero-missed stages == simultaneous digest",
                    module="vf.h.c06", func="o4_sequential",
                    shape=dict(n=n, sites1=s1, sites2=s2, mn_none=False, mx_none=False),
                    sym=[("mn", "int"), ("mx", "int")], pre=["mn >= 1", "mx >= 1"], timeout=t,
                    functions=["digestion.sequential_digest", "digestion.digest"],
                    bounds=f"n={n}, interior site sets fixed; min_len,max_len unbounded"))
    # three and four stages: an intermediate fragment longer than max_len must still reach the later stages
    n5 = 4 if tier == "quick" else 5
    tot = 3 if tier == "quick" else 4
    for n in range(2, n5 + 1):
        ints = list(range(1, n))
        subsets = [tuple(s) for r in range(len(ints) + 1) for s in itertools.combinations(ints, r)]
        for k in (3, 4):
            for stages in itertools.product(subsets, repeat=k):
                if not stages[-1] or sum(map(len, stages)) > tot or (k == 4 and (tier == "quick" or not all(stages[1:]))):
                    continue
                conds.append(Cond(
                    oid=f"O4/sequential{k}/n={n}/" + "/".join(f"s{i + 1}={','.join(map(str, st)) or '-'}" for i, st in enumerate(stages)),
                    clause="sequential digest with k complete zero-missed stages == simultaneous digest (length bounds on final peptides only)",
                    module="vf.h.c06", func="o4_sequential3", shape=dict(n=n, stages=stages, mn_none=False, mx_none=False),
                    sym=[("mn", "int"), ("mx", "int")], pre=["mn >= 1", "mx >= 1"], timeout=t,
                    functions=["digestion.sequential_digest", "digestion.digest"],
                    bounds=f"n={n}, {k} stages with fixed interior site sets; min_len,max_len unbounded"))
    return conds


def run(tier: str, seed: int, only=None) -> Report:
    from ..ch import tier_conds
    conds = tier_conds(build, tier, cap=2000)
    if only:
        conds = [c for c in conds if only in c.oid]
    rep = Report(
        property_id=PID, tier=tier, seed=seed,
        explanation="Bounded symbolic execution of the real span builders and digest entry points under CrossHair/z3: for each "
                    "enumerated cleavage-site layout the parameters missed_cleavages, min_len, max_len (unbounded integers) and the "
                    "boolean flags are solver variables; the returned list is compared span by span with the set the property text "
                    "defines. 'Confirmed over all paths' = every path's z3 query unsat.",
        functions=FUNCS,
        bounds=("protein length n<=4 (quick) / n<=6 (thorough) for build_spans, all 2^(n-1) interior layouts + endpoint variants; "
                "digest entry points n<=3/5; sequential (2, 3 and, thorough, 4 stages) n<=4/5; mc,min_len,max_len: all integers >=0/>=1/>=1"),
        outside="the regex site finder (get_regex_match_indices / PROTEASES) is a C extension: modelled by stub S3 returning the shape's "
                "site set; n beyond the bound; return types other than span (see C07); O4 excludes nothing (interior sites only)",
        assumptions=["S3: get_cleavage_sites returns an arbitrary fixed subset of [0,n] per rule (contract of the regex finder)",
                     "layouts where sites cover all n+1 positions are read as the non-specific rule (spans.py shortcut)",
                     "CrossHair 0.0.110 models Python ints as z3 Int; list/range/sorted/groupby semantics are CrossHair's"],
    )
    rep.obligations = run_conds(conds, PID, known=load_known_findings(PID))
    return rep


def replay(rec: dict) -> int:
    from ..ch import replay_native
    inp = rec["inputs"]
    mod, func = inp["call"].rsplit(".", 1)
    r = replay_native(mod, func, {}, {"kwargs": inp["kwargs"]}, [])
    print("replay:", r.get("ok"), r.get("exc") or r.get("last"))
    if r.get("ok") is False:
        print(f"VIOLATION property={PID} replay=(reproduced)")
        return 1
    return 0
