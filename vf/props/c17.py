"""C17 spectrum matching — E1 (integer instantiation, unbounded values) + E2 (real-valued m/z, th and ppm)."""
from __future__ import annotations

import time
import multiprocessing as mp
from concurrent.futures import ProcessPoolExecutor
from typing import Any, Dict, List

from ..ch import Cond, run_conds
from ..common import CEX, DISCHARGED, INCONCLUSIVE, NCPU, Obligation, Report, load_known_findings

PID = "C17"
FUNCS = ["score.get_matched_indices", "score.match_spectra", "score.get_fragment_matches", "score.get_match_coverage",
         "score.get_matched_intensity_percentage", "score.FragmentMatch", "fragmentation.Fragment"]


def _sym(n1, n2, inten):
    s = [(f"a{i}", "int") for i in range(n1)] + [(f"b{i}", "int") for i in range(n2)]
    if inten:
        s += [(f"i{i}", "int") for i in range(n2)]
    s.append(("tol", "int"))
    return s


def _sorted_pre(n1, n2):
    pre = ["tol >= 0"]
    pre += [f"a{i} <= a{i+1}" for i in range(n1 - 1)]
    pre += [f"b{i} <= b{i+1}" for i in range(n2 - 1)]
    return pre


def e1_conds(tier: str) -> List[Cond]:
    conds = []
    nmax = 3 if tier == "quick" else 4
    t = 90 if tier == "quick" else 400
    for n1 in range(0, nmax + 1):
        for n2 in range(0, nmax + 1):
            if tier == "quick" and n1 + n2 > 5:
                continue
            for mode in ("all", "closest", "largest"):
                conds.append(Cond(oid=f"O1/match_spectra/{mode}/{n1}x{n2}", clause=f"match_spectra mode={mode}, th tolerance, sorted integer lists",
                                  module="vf.h.c17", func="o1_match", shape=dict(mode=mode, n1=n1, n2=n2),
                                  sym=_sym(n1, n2, mode == "largest"), pre=_sorted_pre(n1, n2), timeout=t, functions=FUNCS[:2],
                                  bounds=f"list lengths {n1}x{n2}; values, intensities and tolerance unbounded integers"))
            conds.append(Cond(oid=f"O1/get_matched_indices/{n1}x{n2}", clause="index ranges = brute-force windows (inclusive bounds)",
                              module="vf.h.c17", func="o1_indices", shape=dict(n1=n1, n2=n2), sym=_sym(n1, n2, False),
                              pre=_sorted_pre(n1, n2), timeout=t, functions=FUNCS[:1], bounds=f"{n1}x{n2}, unbounded ints"))
    fmax = 2 if tier == "quick" else 3
    for n1 in range(1, fmax + 1):
        for n2 in range(1, fmax + 1):
            for mode in ("all", "closest", "largest"):
                conds.append(Cond(oid=f"O3/get_fragment_matches/{mode}/{n1}x{n2}", clause="fragment matches on unsorted input + coverage",
                                  module="vf.h.c17", func="o3_fragment_matches", shape=dict(mode=mode, n1=n1, n2=n2),
                                  sym=_sym(n1, n2, True), pre=["tol >= 0"], timeout=t, functions=FUNCS[2:],
                                  bounds=f"{n1} fragments x {n2} peaks in arbitrary order; unbounded ints"))
    return conds


def run(tier: str, seed: int, only=None) -> Report:
    conds = e1_conds(tier)
    if only:
        conds = [c for c in conds if only in c.oid]
    rep = Report(
        property_id=PID, tier=tier, seed=seed,
        explanation="The matcher is number-polymorphic (its own doctests pass ints), so the clauses whose truth depends on exact ties at "
                    "a tolerance edge are decided for the integer instantiation with CrossHair: both lists, the intensities and the "
                    "tolerance are unbounded symbolic integers, list lengths are the shape; the oracle is the quadratic brute-force "
                    "matcher. Real-valued m/z (th and ppm) are decided by E2 on z3 Reals.",
        functions=FUNCS,
        bounds="E1: lengths <=3x3 with n1+n2<=5 (quick) / <=4x4 (thorough), fragment matches <=2x2 / 3x3; E2: see obligations",
        outside="binomial_score (math.comb, **): not encodable; IEEE ties at a tolerance edge for non-integer input (S5); lists longer than the bound",
        assumptions=["inputs sorted ascending for match_spectra/get_matched_indices (documented precondition)", "tolerance >= 0",
                     "E2: floats are reals (S5)"],
    )
    obs = run_conds(conds, PID, known=load_known_findings(PID))
    if not only or "E2" in only:
        obs += e2_obligations(tier)
    rep.obligations = obs
    return rep


def e2_obligations(tier: str) -> List[Obligation]:
    from . import c17_e2
    return c17_e2.run(tier)


def replay(rec: dict) -> int:
    from ..ch import replay_native
    inp = rec["inputs"]
    if "call" in inp:
        mod, func = inp["call"].rsplit(".", 1)
        r = replay_native(mod, func, {}, {"kwargs": inp["kwargs"]}, [])
        print("replay:", r.get("ok"), r.get("exc") or r.get("last"))
        if r.get("ok") is False:
            print(f"VIOLATION property={PID} replay=(reproduced)")
            return 1
        return 0
    from . import c17_e2
    return c17_e2.replay(inp)
